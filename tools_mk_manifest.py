import json
props=[json.loads(l) for l in open('/verif/properties.jsonl')]
claimed = json.load(open('/verif/claims.json'))
checks=[]
na=[]
for p in props:
    i=p['id']
    if i in claimed:
        c=claimed[i]
        checks.append({
            "property_id": i,
            "quick_cmd": f"./run.sh {i} quick",
            "thorough_cmd": f"./run.sh {i} thorough",
            "evidence_file": f"/verif/evidence/{i}.json",
            "replay_cmd_template": f"./engine/target/release/mv replay {i} {{path}}",
            "engine": "mv",
            "level_claimed": {"category":"exploration","text":c["text"],"design_ref":c.get("design_ref","DESIGN.md §6 "+i)},
            "level_note": c["note"],
            "technique": c["technique"],
        })
    else:
        na.append({"property_id": i, "reason": "check not built yet in this round (planned: see DESIGN.md §6 "+i+")"})
m={
 "version":1,
 "setup_cmd":"cd /verif/engine && CARGO_NET_OFFLINE=true cargo build --release --offline",
 "hooks":{"guard":"melstf_verif","enable":"RUSTFLAGS --cfg melstf_verif via /verif/engine/.cargo/config.toml (engine depends on /repo by path, so every build uses /repo's working tree)",
          "baseline_off_cmd":"cd /repo && cargo test --workspace --no-fail-fast --offline",
          "source_commits": json.load(open('/verif/hook_commits.json')),
          "add_only": True},
 "engines":[{"name":"mv","path":"/verif/engine","serves_properties":sorted(claimed.keys()),"kind_free_text":"Rust library + binary: seeded proptest generators sharded over 16 threads + exhaustive enumeration of small sub-spaces, independent reference models (RefVM, RefSTF) as oracles, shrinking to JSON replay files; child-process phases for cross-process determinism (C03) and the legacy window (C07)"},
            {"name":"mv-fuzz","path":"/verif/fuzz","serves_properties":["C01","C02","C09","C10","C11","C12"],"kind_free_text":"cargo-fuzz / libFuzzer targets fz_decode, fz_vm, fz_stf (thorough tier): bytes decoded into the engine's case types, the property's oracle runs inside the target; seed corpus under /verif/corpus"}],
 "checks":checks,
 "not_applicable":na,
 "notes":"Exit codes: 0 held, 1 violation (VIOLATION property=<id> replay=<path>), 2 inconclusive (build failure / watchdog). known_findings.json lists known and fixed findings; see DESIGN.md §7."
}
json.dump(m,open('/verif/MANIFEST.json','w'),indent=1)
print(len(checks),"claimed;",len(na),"n/a")
