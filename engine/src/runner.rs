//! Sharded, seeded proptest driver with known-finding tolerance, shrinking and replay files.
use std::cell::{Cell, RefCell};
use std::sync::atomic::{AtomicU64, Ordering};
use std::sync::Arc;
use std::time::{Duration, Instant};

use proptest::strategy::Strategy;
use proptest::test_runner::{Config, RngAlgorithm, TestCaseError, TestError, TestRng, TestRunner};
use serde::Serialize;
use serde_json::json;

use crate::evidence::{write_replay, Check, Known, Stats, Violation};

pub const WATCHDOG_SECS: u64 = 300;

pub struct Ctx {
    pub property: String,
    pub tier: String,
    pub seed: u64,
    pub known: Known,
    pub strict: bool,
    pub shards: usize,
}

impl Ctx {
    pub fn thorough(&self) -> bool {
        self.tier == "thorough"
    }
    /// scale(quick, thorough)
    pub fn scale(&self, q: u32, t: u32) -> u32 {
        let base = if self.thorough() { t } else { q };
        match std::env::var("MV_CASES_DIV").ok().and_then(|s| s.parse::<u32>().ok()) {
            Some(d) if d > 0 => (base / d).max(1),
            _ => base,
        }
    }
}

/// A panic that escapes a check function is a defect of the harness (panics of the code under test are caught
/// where it is called): the run is inconclusive, never a violation.
fn guarded<R>(prop: &str, f: impl FnOnce() -> R) -> R {
    match std::panic::catch_unwind(std::panic::AssertUnwindSafe(f)) {
        Ok(r) => r,
        Err(p) => {
            let msg = p.downcast_ref::<&str>().map(|s| s.to_string()).or_else(|| p.downcast_ref::<String>().cloned()).unwrap_or_default();
            println!("INCONCLUSIVE property={} the harness itself panicked outside a guarded call: {}", prop, msg);
            std::process::exit(2);
        }
    }
}

pub struct Outcome {
    pub stats: Stats,
    pub violations: Vec<(Violation, std::path::PathBuf)>,
}

fn shard_rng(seed: u64, phase: &str, shard: usize) -> TestRng {
    let h = blake3::hash(format!("mv|{}|{}|{}", seed, phase, shard).as_bytes());
    TestRng::from_seed(RngAlgorithm::ChaCha, h.as_bytes())
}

struct Watch {
    started: Vec<AtomicU64>,
    t0: Instant,
}

fn spawn_watchdog(w: Arc<Watch>, done: Arc<std::sync::atomic::AtomicBool>, prop: String) {
    std::thread::spawn(move || loop {
        std::thread::sleep(Duration::from_secs(2));
        if done.load(Ordering::Relaxed) {
            return;
        }
        let now = w.t0.elapsed().as_secs();
        for (i, s) in w.started.iter().enumerate() {
            let st = s.load(Ordering::Relaxed);
            if st != 0 && now.saturating_sub(st) > WATCHDOG_SECS {
                println!(
                    "INCONCLUSIVE property={} shard={} a single case exceeded {} s (watchdog); exit 2",
                    prop, i, WATCHDOG_SECS
                );
                std::process::exit(2);
            }
        }
    });
}

/// Runs `cases` generated cases on each of `ctx.shards` threads. `check` sees one case at a time.
/// Violations whose signature is listed as "known" are counted and the search continues.
pub fn run_sharded<T, S, MkS, F>(
    ctx: &Ctx,
    phase: &str,
    cases: u32,
    mk_strategy: MkS,
    check: F,
) -> Outcome
where
    T: std::fmt::Debug + Clone + Serialize + Send,
    S: Strategy<Value = T>,
    MkS: Fn() -> S + Sync,
    F: Fn(&T, &mut Stats, usize) -> Check + Sync,
{
    let shards = ctx.shards;
    let watch = Arc::new(Watch { started: (0..shards).map(|_| AtomicU64::new(0)).collect(), t0: Instant::now() });
    let done = Arc::new(std::sync::atomic::AtomicBool::new(false));
    spawn_watchdog(watch.clone(), done.clone(), ctx.property.clone());

    let results: Vec<(Stats, Option<(T, Violation)>)> = std::thread::scope(|scope| {
        let mut handles = vec![];
        for shard in 0..shards {
            let check = &check;
            let mk_strategy = &mk_strategy;
            let watch = watch.clone();
            let h = std::thread::Builder::new()
                .name(format!("s{}", shard))
                .stack_size(256 << 20)
                .spawn_scoped(scope, move || {
                    let stats = RefCell::new(Stats::default());
                    let failed = Cell::new(false);
                    let first_failure: RefCell<Option<(T, Violation)>> = RefCell::new(None);
                    let config = Config {
                        cases,
                        failure_persistence: None,
                        max_shrink_iters: 4096,
                        max_shrink_time: 120_000,
                        max_global_rejects: 1 << 20,
                        ..Config::default()
                    };
                    let mut runner = TestRunner::new_with_rng(config, shard_rng(ctx.seed, phase, shard));
                    let strat = mk_strategy();
                    let res = runner.run(&strat, |v| {
                        watch.started[shard].store(watch.t0.elapsed().as_secs().max(1), Ordering::Relaxed);
                        let mut st = stats.borrow_mut();
                        if failed.get() {
                            st.frozen = true;
                        }
                        let r = guarded(&ctx.property, || check(&v, &mut st, shard));
                        watch.started[shard].store(0, Ordering::Relaxed);
                        match r {
                            Ok(()) => Ok(()),
                            Err(viol) => {
                                if !ctx.strict {
                                    if ctx.known.matches(&ctx.property, &viol.signature).is_some() {
                                        if !st.frozen {
                                            *st.known_hits.entry(viol.signature.clone()).or_insert(0) += 1;
                                        }
                                        return Ok(());
                                    }
                                }
                                if !failed.get() {
                                    *first_failure.borrow_mut() = Some((v.clone(), viol.clone()));
                                }
                                failed.set(true);
                                Err(TestCaseError::fail(viol.signature))
                            }
                        }
                    });
                    watch.started[shard].store(0, Ordering::Relaxed);
                    let mut st = stats.into_inner();
                    st.frozen = true;
                    let fail = match res {
                        Ok(()) => None,
                        Err(TestError::Fail(_, v)) => {
                            // recompute the violation on the shrunk value
                            let mut tmp = Stats { frozen: true, ..Stats::default() };
                            match guarded(&ctx.property, || check(&v, &mut tmp, shard)) {
                                Err(viol) => Some((v, viol)),
                                Ok(()) => {
                                    // the shrunk case passes when run again in this process (state carried between
                                    // calls of the code under test?): report the first failing case as it was seen
                                    match first_failure.borrow_mut().take() {
                                        Some((v0, mut viol0)) => {
                                            viol0.detail = format!("{} [seen once in this process; the shrunk case passed when re-run in the same process, so the unshrunk case is kept - replay it in a fresh process]", viol0.detail);
                                            Some((v0, viol0))
                                        }
                                        None => Some((v, Violation::new("nonreproducible", "shrunk case passed on re-run"))),
                                    }
                                }
                            }
                        }
                        Err(TestError::Abort(r)) => {
                            println!("INCONCLUSIVE property={} proptest aborted: {}", ctx.property, r);
                            std::process::exit(2);
                        }
                    };
                    (st, fail)
                })
                .unwrap();
            handles.push(h);
        }
        handles.into_iter().map(|h| h.join().expect("shard thread died")).collect()
    });
    done.store(true, Ordering::Relaxed);

    let mut stats = Stats::default();
    let mut violations = vec![];
    let mut seen = std::collections::BTreeSet::new();
    for (st, fail) in results {
        stats.merge(st);
        if let Some((v, viol)) = fail {
            if seen.insert(viol.signature.clone()) {
                let body = json!({
                    "property": ctx.property, "seed": ctx.seed, "tier": ctx.tier, "phase": phase,
                    "signature": viol.signature, "detail": viol.detail, "case": v,
                });
                let p = write_replay(&ctx.property, &viol.signature, &body);
                violations.push((viol, p));
            }
        }
    }
    Outcome { stats, violations }
}

/// Non-proptest loop helper for enumerations: run `f` over items split across shards.
pub fn run_enumeration<I, F>(ctx: &Ctx, phase: &str, items: Vec<I>, f: F) -> Outcome
where
    I: Send + Sync + Serialize + Clone,
    F: Fn(&I, &mut Stats, usize) -> Check + Sync,
{
    let shards = ctx.shards.max(1);
    let chunks: Vec<Vec<I>> = {
        let mut c: Vec<Vec<I>> = (0..shards).map(|_| vec![]).collect();
        for (i, it) in items.into_iter().enumerate() {
            c[i % shards].push(it);
        }
        c
    };
    let results: Vec<(Stats, Vec<(I, Violation)>)> = std::thread::scope(|scope| {
        let mut hs = vec![];
        for (shard, chunk) in chunks.into_iter().enumerate() {
            let f = &f;
            hs.push(
                std::thread::Builder::new()
                    .name(format!("s{}", shard))
                    .stack_size(256 << 20)
                    .spawn_scoped(scope, move || {
                        let mut st = Stats::default();
                        let mut fails = vec![];
                        for it in chunk.iter() {
                            match guarded(&ctx.property, || f(it, &mut st, shard)) {
                                Ok(()) => {}
                                Err(v) => {
                                    if !ctx.strict && ctx.known.matches(&ctx.property, &v.signature).is_some() {
                                        *st.known_hits.entry(v.signature.clone()).or_insert(0) += 1;
                                    } else if fails.len() < 4 {
                                        fails.push((it.clone(), v));
                                    }
                                }
                            }
                        }
                        (st, fails)
                    })
                    .unwrap(),
            );
        }
        hs.into_iter().map(|h| h.join().expect("shard died")).collect()
    });
    let mut stats = Stats::default();
    let mut violations = vec![];
    let mut seen = std::collections::BTreeSet::new();
    for (st, fails) in results {
        stats.merge(st);
        for (it, viol) in fails {
            if seen.insert(viol.signature.clone()) {
                let body = json!({
                    "property": ctx.property, "seed": ctx.seed, "tier": ctx.tier, "phase": phase,
                    "signature": viol.signature, "detail": viol.detail, "case": it,
                });
                let p = write_replay(&ctx.property, &viol.signature, &body);
                violations.push((viol, p));
            }
        }
    }
    Outcome { stats, violations }
}

impl Outcome {
    pub fn absorb(&mut self, o: Outcome) {
        self.stats.merge(o.stats);
        self.violations.extend(o.violations);
    }
    pub fn empty() -> Outcome {
        Outcome { stats: Stats::default(), violations: vec![] }
    }
}
