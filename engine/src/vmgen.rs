//! Generators for MelVM programs, values and byte strings.
use proptest::prelude::*;

use crate::refvm::{ROp, RVal};

fn be(v: u128) -> [u8; 32] {
    let mut b = [0u8; 32];
    b[16..].copy_from_slice(&v.to_be_bytes());
    b
}

pub fn interesting_int(p: u64) -> [u8; 32] {
    let classes: [[u8; 32]; 28] = [
        be(1 << 32),
        be((1 << 32) - 1),
        be(1 << 63),
        be(1 << 64),
        be(1 << 127),
        {
            let mut b = [0u8; 32];
            b[7] = 1; // 2^192
            b
        },
        {
            let mut b = [0xff; 32];
            b[0] = 0x7f; // 2^255 - 1
            b
        },
        be((1 << 64) + 1),
        be(0),
        be(1),
        be(2),
        be(3),
        be(31),
        be(32),
        be(33),
        be(64),
        be(255),
        be(256),
        be(257),
        be(65535),
        be(65536),
        be(u64::MAX as u128),
        be(u128::MAX),
        {
            let mut b = [0u8; 32];
            b[0] = 0x80;
            b
        },
        [0xff; 32],
        {
            let mut b = [0xff; 32];
            b[31] = 0xfe;
            b
        },
        {
            let mut b = [0u8; 32];
            b[15] = 1;
            b
        },
        be(7),
    ];
    let c = (p % 38) as usize;
    if c < classes.len() {
        classes[c]
    } else {
        // pseudo-random from p
        let h = blake3::hash(&p.to_le_bytes());
        let mut b = *h.as_bytes();
        // vary magnitude
        let keep = ((p >> 8) % 33) as usize;
        for x in b.iter_mut().take(32 - keep) {
            *x = 0;
        }
        b
    }
}

pub fn interesting_bytes(p: u64) -> Vec<u8> {
    let lens = [0usize, 1, 2, 31, 32, 33, 63, 64, 65, 100, 255];
    let l = lens[(p % lens.len() as u64) as usize];
    let h = blake3::hash(&p.to_le_bytes());
    let mut out = Vec::with_capacity(l);
    let mut ctr = 0u8;
    while out.len() < l {
        let hh = blake3::keyed_hash(h.as_bytes(), &[ctr]);
        out.extend_from_slice(hh.as_bytes());
        ctr += 1;
    }
    out.truncate(l);
    out
}

#[derive(Clone, Copy, PartialEq, Eq, Debug)]
enum Ty {
    I,
    B,
    V,
}

struct Builder {
    ops: Vec<ROp>,
    st: Vec<Ty>,
}

impl Builder {
    fn push_int(&mut self, p: u64) {
        let v = interesting_int(p);
        if p & 1 == 0 {
            self.ops.push(ROp::PushI(v));
        } else {
            self.ops.push(ROp::PushIC(v));
        }
        self.st.push(Ty::I);
    }
    fn push_small(&mut self, v: u128) {
        self.ops.push(ROp::PushIC(be(v)));
        self.st.push(Ty::I);
    }
    fn push_bytes(&mut self, p: u64) {
        if p % 11 == 0 && (p >> 40) % 2 == 0 {
            // the empty string, spelled with its own opcode
            self.ops.push(ROp::BEmpty);
            self.st.push(Ty::B);
            return;
        }
        self.ops.push(ROp::PushB(interesting_bytes(p)));
        self.st.push(Ty::B);
    }
    fn push_vec(&mut self, p: u64) {
        // build a vector of (p % 4) elements via vempty + (item; vcons)*
        self.ops.push(ROp::VEmpty);
        self.st.push(Ty::V);
        let n = p % 4;
        for i in 0..n {
            let q = p.rotate_left(7 * (i as u32 + 1));
            match q % 3 {
                0 => self.push_int(q >> 2),
                1 => self.push_bytes(q >> 2),
                _ => {
                    self.ops.push(ROp::VEmpty);
                    self.st.push(Ty::V);
                }
            }
            self.ops.push(ROp::VCons);
            self.st.pop();
        }
    }
    fn fresh(&mut self, t: Ty, p: u64) {
        match t {
            Ty::I => self.push_int(p),
            Ty::B => self.push_bytes(p),
            Ty::V => self.push_vec(p),
        }
    }
    /// make the top of the stack look like `want` (deepest first). `sloppy` leaves mismatches alone.
    fn ensure(&mut self, want: &[Ty], p: u64, sloppy: bool) {
        let n = want.len();
        let ok = self.st.len() >= n && self.st[self.st.len() - n..] == *want;
        if ok || sloppy {
            return;
        }
        for (i, t) in want.iter().enumerate() {
            self.fresh(*t, p.rotate_left(11 * (i as u32 + 1)));
        }
    }
    fn apply(&mut self, pops: usize, push: Option<Ty>) {
        for _ in 0..pops {
            self.st.pop();
        }
        if let Some(t) = push {
            self.st.push(t);
        }
    }
}

/// heap addresses: mostly small, sometimes at the edges of the 16-bit address space and beyond it
fn addr_class(p: u64) -> u128 {
    if (p >> 8) % 6 == 0 {
        [10u128, 255, 256, 65535, 65536, 1 << 64][(p % 6) as usize]
    } else {
        (p % 5) as u128
    }
}

/// collection indices: mostly below `small`, sometimes at the edges of the 16-bit index space and beyond it
fn index_class(p: u64, small: u64) -> u128 {
    if (p >> 9) % 8 == 0 {
        [255u128, 256, 65535, 65536, 1 << 32, 1 << 64, 1 << 128 - 1][(p % 7) as usize]
    } else {
        (p % small) as u128
    }
}

/// forward jump distances: mostly short, sometimes far beyond the end of the program
fn jump_class(p: u64) -> u16 {
    if (p >> 10) % 10 == 0 {
        [7u16, 60, 255, 256, 65535][(p % 5) as usize]
    } else {
        (p % 5) as u16
    }
}

/// A 256-bit big-endian integer with exactly `l` significant bits (0 for l = 0): top bit set, lower bits all zero (0),
/// only bit 0 (1), all ones (2) or pseudo-random (3).
pub fn exp_operand(l: u32, pattern: u8, salt: u64) -> [u8; 32] {
    let mut e = [0u8; 32];
    if l == 0 {
        return e;
    }
    let l = l.min(256);
    let set = |e: &mut [u8; 32], bit: u32| e[31 - (bit / 8) as usize] |= 1 << (bit % 8);
    match pattern % 4 {
        0 => {}
        1 => set(&mut e, 0),
        2 => {
            for b in 0..l {
                set(&mut e, b);
            }
        }
        _ => {
            let h = blake3::hash(&salt.to_le_bytes());
            for b in 0..l.saturating_sub(1) {
                if h.as_bytes()[(b / 8) as usize] >> (b % 8) & 1 == 1 {
                    set(&mut e, b);
                }
            }
        }
    }
    set(&mut e, l - 1);
    e
}

/// Deterministically expands abstract choices into a mostly type-correct program.
pub fn build_program(choices: &[(u8, u64)]) -> Vec<ROp> {
    let mut b = Builder { ops: vec![], st: vec![] };
    for &(c, p) in choices {
        let sloppy = p % 11 == 0;
        match c % 48 {
            0 | 1 | 2 => b.push_int(p),
            3 => b.push_bytes(p),
            4 => b.push_vec(p),
            5..=12 => {
                b.ensure(&[Ty::I, Ty::I], p, sloppy);
                let op = match c % 48 {
                    5 => ROp::Add,
                    6 => ROp::Sub,
                    7 => ROp::Mul,
                    8 => ROp::Div,
                    9 => ROp::Rem,
                    10 => ROp::And,
                    11 => ROp::Or,
                    _ => ROp::Xor,
                };
                b.ops.push(op);
                b.apply(2, Some(Ty::I));
            }
            13 => {
                // exp: exponent second from top, base on top. The exponent has a chosen bit length L (0..=256: the
                // immediate k admits exponents of up to k+1 significant bits) with low bits zero / one / all ones /
                // mixed; k is L-2, L-1 or L; the base is small (so that the power is not trivially 0 or 1) or any integer
                let l: u32 = if (p >> 27) % 3 == 0 {
                    ((p >> 29) % 257) as u32
                } else {
                    [0u32, 1, 2, 3, 4, 8, 9, 16, 17, 31, 32, 33, 34, 63, 64, 65, 127, 128, 129, 200, 255, 256, 256][(p % 23) as usize]
                };
                b.ops.push(ROp::PushI(exp_operand(l, ((p >> 13) % 4) as u8, p)));
                b.st.push(Ty::I);
                match (p >> 20) % 4 {
                    0 => b.push_small(2),
                    1 => b.push_small(3),
                    _ => b.push_int(p >> 4),
                }
                let k = (l as i64 - 1 + ((p >> 9) % 3) as i64 - 1).clamp(0, 255) as u8;
                b.ops.push(ROp::Exp(k));
                b.apply(2, Some(Ty::I));
            }
            14 => {
                b.ensure(&[Ty::I], p, sloppy);
                b.ops.push(ROp::Not);
                b.apply(1, Some(Ty::I));
            }
            15..=17 => {
                b.ensure(&[Ty::I, Ty::I], p, sloppy);
                b.ops.push(match c % 48 {
                    15 => ROp::Eql,
                    16 => ROp::Lt,
                    _ => ROp::Gt,
                });
                b.apply(2, Some(Ty::I));
            }
            18 | 19 => {
                // shifts: offset second, value on top
                let off = [0u128, 1, 8, 255, 256, 257, 511, 1 << 40, 31, 32, 63, 64, 65, 127, 128, 129, 191, 192, 254, (1 << 64) + 3][(p % 20) as usize];
                b.push_small(off);
                b.push_int(p >> 3);
                b.ops.push(if c % 48 == 18 { ROp::Shl } else { ROp::Shr });
                b.apply(2, Some(Ty::I));
            }
            20 => {
                b.ensure(&[Ty::B], p, sloppy);
                let n = [0u16, 1, 31, 32, 33, 64, 255, 65535][(p % 8) as usize];
                b.ops.push(ROp::Hash(n));
                b.apply(1, Some(Ty::B));
            }
            21 => {
                // sigeok: sig, pk, msg (msg on top)
                if (p >> 7) % 3 != 0 {
                    // a genuine signature by one of the harness keys, so that the accepting path runs too: message
                    // length bound exactly met / one short / generous, sometimes one bit of the signature flipped,
                    // sometimes the wrong key, sometimes padded key or signature
                    let msg = interesting_bytes(p >> 5);
                    let (pk, sk) = crate::util::key(((p >> 9) % 4) as usize);
                    let mut sig = sk.sign(&msg);
                    let mut pkb = pk.0.to_vec();
                    // up to two independent abnormalities in one instruction (the order in which operands are examined
                    // decides between "pushes 0" and "fails")
                    for sel in [(p >> 12) % 8, (p >> 40) % 16] {
                        match sel {
                            0 => sig[((p >> 16) % 64) as usize] ^= 1 << ((p >> 24) % 8),
                            1 => pkb = crate::util::key(((p >> 9) % 4) as usize + 1).0 .0.to_vec(),
                            2 => sig.push(0),
                            3 => pkb.push(0),
                            8 => {
                                pkb.pop();
                            }
                            9 => {
                                sig.pop();
                            }
                            10 => sig.extend_from_slice(&[0u8; 7]),
                            _ => {}
                        }
                    }
                    let n = match (p >> 28) % 4 {
                        0 => msg.len() as u16,
                        1 => (msg.len() as u16).saturating_sub(1),
                        2 => msg.len() as u16 + 1,
                        _ => 65535,
                    };
                    if (p >> 44) % 16 == 0 {
                        b.ops.push(ROp::PushIC(be(7)));
                    } else {
                        b.ops.push(ROp::PushB(sig));
                    }
                    b.ops.push(ROp::PushB(pkb));
                    if (p >> 48) % 16 == 0 {
                        b.ops.push(ROp::PushIC(be(9)));
                    } else {
                        b.ops.push(ROp::PushB(msg));
                    }
                    b.ops.push(ROp::SigEOk(n));
                    b.st.push(Ty::I);
                    continue;
                }
                b.push_bytes(7); // 64-byte class index 7 -> len 64
                b.push_bytes(4 + 11 * (p % 3)); // 32 / 32.. vary
                b.push_bytes(p >> 5);
                b.ops.push(ROp::SigEOk([0u16, 32, 64, 65535][(p % 4) as usize]));
                b.apply(3, Some(Ty::I));
            }
            22 => {
                // store: value, then address on top
                if b.st.is_empty() {
                    b.push_int(p);
                }
                b.push_small(addr_class(p));
                b.ops.push(ROp::Store);
                b.apply(2, None);
            }
            23 => {
                b.push_small(addr_class(p));
                b.ops.push(ROp::Load);
                b.apply(1, Some(Ty::I));
            }
            24 => {
                if b.st.is_empty() {
                    b.push_int(p);
                }
                b.ops.push(ROp::StoreImm(if (p >> 8) % 8 == 0 { [255u16, 256, 4095, 65535][(p % 4) as usize] } else { (p % 5) as u16 }));
                b.apply(1, None);
            }
            25 => {
                if (p >> 8) % 8 == 0 {
                    b.ops.push(ROp::LoadImm([255u16, 256, 4095, 65535][(p % 4) as usize]));
                    b.apply(0, Some(Ty::I));
                    continue;
                }
                b.ops.push(ROp::LoadImm((p % 12) as u16));
                b.apply(0, Some(if p % 12 == 0 || p % 12 == 10 { Ty::V } else { Ty::I }));
            }
            26 => {
                // vref: idx second, vec on top
                b.push_small(index_class(p, 8));
                b.push_vec(p >> 3);
                b.ops.push(ROp::VRef);
                b.apply(2, Some(Ty::I));
            }
            27 => {
                // vref on whatever vector is there (e.g. loaded tx)
                if b.st.last() == Some(&Ty::V) {
                    let v = b.st.pop().unwrap();
                    // need idx below the vector: store vec, push idx, reload
                    b.ops.push(ROp::StoreImm(100));
                    b.push_small((p % 8) as u128);
                    b.ops.push(ROp::LoadImm(100));
                    b.st.push(v);
                    b.ops.push(ROp::VRef);
                    b.apply(2, Some(if p % 2 == 0 { Ty::V } else { Ty::I }));
                } else {
                    b.push_vec(p);
                }
            }
            28 => {
                // vset: value, idx, vec(top)
                b.push_int(p >> 1);
                b.push_small(index_class(p, 5));
                b.push_vec(p >> 3);
                b.ops.push(ROp::VSet);
                b.apply(3, Some(Ty::V));
            }
            29 => {
                b.ensure(&[Ty::V, Ty::V], p, sloppy);
                b.ops.push(ROp::VAppend);
                b.apply(2, Some(Ty::V));
            }
            30 => {
                b.ensure(&[Ty::V], p, sloppy);
                b.ops.push(ROp::VLength);
                b.apply(1, Some(Ty::I));
            }
            31 => {
                // vslice: end, begin, vec(top)
                b.push_small(index_class(p >> 4, 6));
                b.push_small(index_class(p.rotate_left(17), 6));
                b.push_vec(p >> 8);
                b.ops.push(ROp::VSlice);
                b.apply(3, Some(Ty::V));
            }
            32 => {
                // vpush: item second, vec on top
                b.push_int(p);
                b.push_vec(p >> 3);
                b.ops.push(ROp::VPush);
                b.apply(2, Some(Ty::V));
            }
            33 => {
                // bref: idx second, bytes top
                let idx = [0u128, 1, 30, 31, 32, 33, 65535, 65536][(p % 8) as usize];
                b.push_small(idx);
                b.push_bytes(p >> 3);
                b.ops.push(ROp::BRef);
                b.apply(2, Some(Ty::I));
            }
            34 => {
                b.ensure(&[Ty::B, Ty::B], p, sloppy);
                b.ops.push(ROp::BAppend);
                b.apply(2, Some(Ty::B));
            }
            35 => {
                b.ensure(&[Ty::B], p, sloppy);
                b.ops.push(ROp::BLength);
                b.apply(1, Some(Ty::I));
            }
            36 => {
                // bslice: end, begin, bytes(top)
                let ends = [0u128, 1, 31, 32, 33, 64, 65, 65535];
                b.push_small(ends[((p >> 4) % 8) as usize]);
                b.push_small(ends[(p % 8) as usize]);
                b.push_bytes(p >> 8);
                b.ops.push(ROp::BSlice);
                b.apply(3, Some(Ty::B));
            }
            37 => {
                // bset: value, idx, bytes(top)
                b.push_int(p >> 1);
                b.push_small(index_class(p, 34));
                b.push_bytes(p >> 6);
                b.ops.push(ROp::BSet);
                b.apply(3, Some(Ty::B));
            }
            38 => {
                // bpush: int second, bytes top
                b.push_int(p);
                b.push_bytes(p >> 3);
                b.ops.push(ROp::BPush);
                b.apply(2, Some(Ty::B));
            }
            39 => {
                // bcons: bytes second, int top
                b.push_bytes(p >> 3);
                b.push_int(p);
                b.ops.push(ROp::BCons);
                b.apply(2, Some(Ty::B));
            }
            40 => {
                b.ensure(&[Ty::I], p, sloppy);
                b.ops.push(ROp::Bez(jump_class(p)));
                b.apply(1, None);
            }
            41 => {
                b.ensure(&[Ty::I], p, sloppy);
                b.ops.push(ROp::Bnz(jump_class(p)));
                b.apply(1, None);
            }
            42 => {
                b.ops.push(ROp::Jmp(jump_class(p)));
            }
            43 => {
                let n = [0u16, 1, 2, 3, 5, 1, 2, 3, 255, 256, 257][(p % 11) as usize];
                let m = ((p >> 3) % 7) as u16;
                b.ops.push(ROp::Loop(n, m));
            }
            44 => {
                b.ensure(&[Ty::I], p, sloppy);
                b.ops.push(ROp::ItoB);
                b.apply(1, Some(Ty::B));
            }
            45 => {
                if p % 3 == 0 {
                    b.ensure(&[Ty::B], p, sloppy);
                } else {
                    b.ops.push(ROp::PushB(interesting_bytes(4 + 11 * (p % 5)))); // mostly 32 bytes
                    b.st.push(Ty::B);
                }
                b.ops.push(ROp::BtoI);
                b.apply(1, Some(Ty::I));
            }
            46 => {
                if b.st.is_empty() {
                    b.push_int(p);
                }
                b.ops.push(if p % 2 == 0 { ROp::TypeQ } else { ROp::Dup });
                if p % 2 == 0 {
                    b.apply(1, Some(Ty::I));
                } else {
                    let t = *b.st.last().unwrap_or(&Ty::I);
                    b.st.push(t);
                }
            }
            _ => b.ops.push(ROp::Noop),
        }
    }
    b.ops
}

pub fn choices(max_len: usize) -> impl Strategy<Value = Vec<(u8, u64)>> {
    proptest::collection::vec((any::<u8>(), any::<u64>()), 1..max_len)
}

pub fn arb_rval(depth: u32) -> BoxedStrategy<RVal> {
    let leaf = prop_oneof![
        any::<u64>().prop_map(|p| RVal::Int(interesting_int(p))),
        any::<u64>().prop_map(|p| RVal::Bytes(interesting_bytes(p))),
    ];
    if depth == 0 {
        leaf.boxed()
    } else {
        prop_oneof![
            3 => leaf,
            1 => proptest::collection::vec(arb_rval(depth - 1), 0..4).prop_map(RVal::Vec),
        ]
        .boxed()
    }
}

/// An arbitrary single instruction with operands over their whole representable range.
pub fn arb_op() -> impl Strategy<Value = ROp> {
    let u16s = prop_oneof![Just(0u16), Just(1), Just(255), Just(256), Just(65535), any::<u16>()];
    let simple = prop::sample::select(vec![
        ROp::Noop,
        ROp::Add,
        ROp::Sub,
        ROp::Mul,
        ROp::Div,
        ROp::Rem,
        ROp::And,
        ROp::Or,
        ROp::Xor,
        ROp::Not,
        ROp::Eql,
        ROp::Lt,
        ROp::Gt,
        ROp::Shl,
        ROp::Shr,
        ROp::Store,
        ROp::Load,
        ROp::VRef,
        ROp::VAppend,
        ROp::VEmpty,
        ROp::VLength,
        ROp::VSlice,
        ROp::VSet,
        ROp::VPush,
        ROp::VCons,
        ROp::BRef,
        ROp::BAppend,
        ROp::BEmpty,
        ROp::BLength,
        ROp::BSlice,
        ROp::BSet,
        ROp::BPush,
        ROp::BCons,
        ROp::ItoB,
        ROp::BtoI,
        ROp::TypeQ,
        ROp::Dup,
    ]);
    prop_oneof![
        6 => simple,
        1 => any::<u8>().prop_map(ROp::Exp),
        1 => u16s.clone().prop_map(ROp::Hash),
        1 => u16s.clone().prop_map(ROp::SigEOk),
        1 => u16s.clone().prop_map(ROp::StoreImm),
        1 => u16s.clone().prop_map(ROp::LoadImm),
        1 => u16s.clone().prop_map(ROp::Bez),
        1 => u16s.clone().prop_map(ROp::Bnz),
        1 => u16s.clone().prop_map(ROp::Jmp),
        1 => (u16s.clone(), u16s).prop_map(|(a, b)| ROp::Loop(a, b)),
        2 => proptest::collection::vec(any::<u8>(), 0..=255).prop_map(ROp::PushB),
        2 => any::<u64>().prop_map(|p| ROp::PushI(interesting_int(p))),
        2 => any::<u64>().prop_map(|p| ROp::PushIC(interesting_int(p))),
        1 => any::<[u8; 32]>().prop_map(ROp::PushI),
        1 => any::<[u8; 32]>().prop_map(ROp::PushIC),
    ]
}

/// Near-misses of the standard signature covenants: the genuine bytes with a run of whole instructions replaced by
/// other valid code of exactly the same length (nested counted loops padded with no-ops), so that length, prefix
/// and/or suffix still match the template. `sel` picks template, window and filling.
pub fn near_miss_std(sel: u64) -> Vec<u8> {
    let legacy = sel & 1 == 1;
    let key = crate::util::key(((sel >> 1) % 4) as usize).0;
    let cov = if legacy { melvm::Covenant::std_ed25519_pk_legacy(key) } else { melvm::Covenant::std_ed25519_pk_new(key) };
    let bytes = cov.to_bytes().to_vec();
    let ops = match crate::refvm::decode(&bytes) {
        Ok(o) => o,
        Err(_) => return bytes,
    };
    let lens: Vec<usize> = ops.iter().map(|o| crate::refvm::encode(std::slice::from_ref(o)).map(|e| e.len()).unwrap_or(1)).collect();
    let n = ops.len();
    let i = ((sel >> 3) as usize) % n;
    let j = i + 1 + ((sel >> 9) as usize) % (n - i);
    let start: usize = lens[..i].iter().sum();
    let wlen: usize = lens[i..j].iter().sum();
    // filling: up to wlen/5 loops of `iters` iterations, each spanning what follows inside the window, then no-ops
    let iters = [1u16, 2, 300, 65535][((sel >> 15) % 4) as usize];
    let mut fill: Vec<u8> = vec![];
    let max_loops = (wlen / 5).min(((sel >> 17) % 8) as usize);
    for k in 0..max_loops {
        let remaining_instr = (max_loops - k - 1) + (wlen - 5 * max_loops);
        let body = remaining_instr.max(1).min(65535) as u16;
        fill.extend_from_slice(&crate::refvm::encode(&[ROp::Loop(iters, body)]).unwrap());
    }
    while fill.len() < wlen {
        fill.push(0x09);
    }
    let mut out = bytes.clone();
    out[start..start + wlen].copy_from_slice(&fill[..wlen]);
    out
}
