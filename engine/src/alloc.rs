//! Counting global allocator: per-thread live bytes and high-water mark (deterministic, no clocks).
use std::alloc::{GlobalAlloc, Layout, System};
use std::cell::Cell;

pub struct Counting;

thread_local! {
    static LIVE: Cell<i64> = const { Cell::new(0) };
    static PEAK: Cell<i64> = const { Cell::new(0) };
    static TOTAL: Cell<u64> = const { Cell::new(0) };
}

unsafe impl GlobalAlloc for Counting {
    unsafe fn alloc(&self, l: Layout) -> *mut u8 {
        let p = System.alloc(l);
        if !p.is_null() {
            let _ = LIVE.try_with(|c| {
                let v = c.get() + l.size() as i64;
                c.set(v);
                let _ = PEAK.try_with(|p| {
                    if v > p.get() {
                        p.set(v)
                    }
                });
            });
            let _ = TOTAL.try_with(|t| t.set(t.get() + l.size() as u64));
        }
        p
    }
    unsafe fn dealloc(&self, p: *mut u8, l: Layout) {
        System.dealloc(p, l);
        let _ = LIVE.try_with(|c| c.set(c.get() - l.size() as i64));
    }
    unsafe fn realloc(&self, p: *mut u8, l: Layout, new: usize) -> *mut u8 {
        let q = System.realloc(p, l, new);
        if !q.is_null() {
            let _ = LIVE.try_with(|c| {
                let v = c.get() + new as i64 - l.size() as i64;
                c.set(v);
                let _ = PEAK.try_with(|p| {
                    if v > p.get() {
                        p.set(v)
                    }
                });
            });
            if new > l.size() {
                let _ = TOTAL.try_with(|t| t.set(t.get() + (new - l.size()) as u64));
            }
        }
        q
    }
}

/// Returns (peak bytes above the starting level, total bytes allocated) in this thread during `f`.
pub fn measure<R>(f: impl FnOnce() -> R) -> (R, u64, u64) {
    let base = LIVE.with(|c| c.get());
    PEAK.with(|p| p.set(base));
    let t0 = TOTAL.with(|t| t.get());
    let r = f();
    let peak = PEAK.with(|p| p.get());
    let t1 = TOTAL.with(|t| t.get());
    (r, (peak - base).max(0) as u64, t1 - t0)
}
