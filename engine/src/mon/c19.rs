//! C19 — faucets: never on mainnet, and at most once anywhere.
use std::collections::BTreeMap;

use melstructs::{NetID, TxHash, TxKind};

use crate::evidence::{Check, Stats};
use crate::plan::{BatchObs, Monitor, Profile, SealObs};
use crate::refstf::GRANDFATHERED_FAUCET;
use crate::runner::{Ctx, Outcome};
use crate::util::h64;
use crate::viol;
use crate::world::{Outcome as O, Sealed, World};

#[derive(Default)]
pub struct C19 {
    accepted: BTreeMap<TxHash, (u64, u32)>, // height of first acceptance, block index
    blocks: u32,
    restarts: u32,
    replay_points: Vec<String>,
}

impl Monitor for C19 {
    fn on_batch(&mut self, w: &World, ob: &BatchObs, st: &mut Stats) -> Check {
        let faucets: Vec<TxHash> = ob.txs.iter().filter(|t| t.kind == TxKind::Faucet).map(|t| t.hash_nosigs()).collect();
        if faucets.is_empty() {
            return Ok(());
        }
        st.class(&format!("faucet-batch-on-{:?}", w.net));
        if let O::Ok(()) = ob.outcome {
            let mut in_batch: BTreeMap<TxHash, u32> = BTreeMap::new();
            for h in faucets.iter() {
                *in_batch.entry(*h).or_insert(0) += 1;
            }
            for (h, n) in in_batch {
                if w.net == NetID::Mainnet && h.0.to_string() != GRANDFATHERED_FAUCET {
                    viol!("faucet-accepted-on-mainnet", "faucet {} was accepted on mainnet at height {}", h, ob.pre.height);
                }
                if n > 1 && h.0.to_string() == GRANDFATHERED_FAUCET {
                    viol!("grandfathered-faucet-accepted-again", "the grandfathered faucet appears {} times in one accepted batch at height {} on {:?}", n, ob.pre.height, w.net);
                }
                if n > 1 {
                    viol!("faucet-accepted-twice-in-one-batch", "faucet {} appears {} times in one accepted batch", h, n);
                }
                if h.0.to_string() == GRANDFATHERED_FAUCET && self.accepted.contains_key(&h) {
                    viol!(
                        "grandfathered-faucet-accepted-again",
                        "the grandfathered faucet was accepted again at height {} on {:?} (it leaves no duplicate marker)",
                        ob.pre.height,
                        w.net
                    );
                }
                if let Some((h0, b0)) = self.accepted.get(&h) {
                    let point = if *b0 == self.blocks { "same-block-later-batch" } else if self.restarts > 0 { "later-block-after-restart" } else { "later-block" };
                    viol!(
                        format!("faucet-accepted-again-{}", point),
                        "faucet {} first accepted at height {} was accepted again at height {} ({} block(s) later, {} restart(s) in between)",
                        h,
                        h0,
                        ob.pre.height,
                        self.blocks - b0,
                        self.restarts
                    );
                }
                self.accepted.insert(h, (ob.pre.height, self.blocks));
                st.class("faucet-first-acceptance");
            }
        } else if let O::Rejected(e) = ob.outcome {
            for h in faucets.iter() {
                if let Some((_, b0)) = self.accepted.get(h) {
                    let point = if *b0 == self.blocks { "same-block" } else if self.restarts > 0 { "after-restart" } else { "later-block" };
                    self.replay_points.push(point.to_string());
                    st.class(&format!("replayed-faucet-rejected-{}", point));
                }
            }
            if e.contains("DuplicateTx") {
                st.class("rejected-as-duplicate");
            }
        }
        Ok(())
    }
    fn on_seal(&mut self, _w: &World, _ob: &SealObs, _st: &mut Stats) -> Check {
        self.blocks += 1;
        Ok(())
    }
    fn on_restart(&mut self, _w: &World, _b: &Sealed, _a: &Sealed, _st: &mut Stats) -> Check {
        self.restarts += 1;
        Ok(())
    }
    fn on_end(&mut self, _w: &World, st: &mut Stats) -> Check {
        self.replay_points.sort();
        self.replay_points.dedup();
        if !self.replay_points.is_empty() {
            st.nontrivial(h64(format!("{:?}|{}", self.replay_points, st.evals).as_bytes()));
        }
        Ok(())
    }
}

pub fn profile() -> Profile {
    let mut p = Profile::general();
    p.net_w = [14, 10, 14, 22, 8, 8, 8, 8, 8];
    p.kind_w = [20, 30, 4, 2, 2, 2, 4, 0, 36];
    p.p_mut = 10;
    p.max_txs = 5;
    p.max_steps = 18;
    p.p_teleport = 1;
    p.grandfathered_faucet = true;
    p
}

pub fn run(ctx: &Ctx) -> (Outcome, String, Option<bool>) {
    let mut p = profile();
    if ctx.thorough() {
        p.max_steps = 36;
        p.max_txs = 8;
    }
    let mut out = super::hist::run_histories(ctx, "faucet-histories", p.clone(), ctx.scale(2000, 20000), C19::default);
    // the same histories started at heights sampled anywhere below 2 000 000 (a third of them on the testnet)
    let p2 = profile2();
    out.absorb(super::hist::run_histories_with(ctx, "faucet-histories-at-sampled-heights", p2, ctx.scale(1500, 15000), super::hist::arb_plan_at_random_height, C19::default));
    let rule = "Second phase: the same kind of histories started at a height sampled anywhere below 2 000 000 (TIP-906 barrier crossed honestly first). First phase: generated histories on all nine network ids (mainnet 22%) in which 30% of transactions are fresh faucets (0-4 outputs, every denomination incl. new tokens, fee 0..2^70, random data) and 36% are re-submissions of a faucet seen earlier in the history - in the same batch, a later batch of the same block, later blocks, after restart from a block, after a jump to a boundary height - interleaved with ordinary traffic and mutations. Oracle: on mainnet no faucet is ever in an accepted batch (the grandfathered hash excepted; its body is unknown, so it cannot be generated); elsewhere every faucet hash is accepted at most once over the whole history. Evidence counts first acceptances so that the check is not vacuous. Non-trivial = a history in which an already accepted faucet was re-submitted (and rejected) at >=1 kind of replay point; distinct by the set of replay-point kinds per case.".to_string();
    (out, rule, None)
}

pub fn profile2() -> Profile {
    let mut p2 = profile();
    p2.net_w = [10, 6, 34, 10, 8, 8, 8, 8, 8];
    p2.max_steps = 12;
    p2
}

pub fn replay(case: &serde_json::Value) -> Check {
    super::hist::replay_two_phase(case, &profile(), &profile2(), C19::default())
}
