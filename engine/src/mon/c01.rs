//! C01 — no value is created from nothing.
use std::collections::BTreeMap;

use melstructs::{Denom, NetID, TxKind};
use num::{BigUint, Zero};

use crate::evidence::{Check, Stats};
use crate::plan::{child_before_parent, has_dependency, BatchObs, Monitor, Profile, SealObs};
use crate::refstf::{self, supply};
use crate::runner::{Ctx, Outcome};
use crate::util::h64;
use crate::viol;
use crate::world::{Outcome as O, World};

#[derive(Default)]
pub struct C01 {
    accepted_nonfaucet: u32,
    seals: u32,
    digest: Vec<u8>,
}

fn show(d: &Denom) -> String {
    format!("{}", d)
}

pub fn legacy_deposit_regime(net: NetID, h: u64) -> bool {
    refstf::legacy_net(net) && h < 978_392
}

impl Monitor for C01 {
    fn on_batch(&mut self, _w: &World, ob: &BatchObs, st: &mut Stats) -> Check {
        if !matches!(ob.outcome, O::Ok(())) {
            st.class("batch-rejected");
            return Ok(());
        }
        st.class("batch-accepted");
        let before = supply(ob.pre);
        let after = supply(ob.post);
        let mut issued: BTreeMap<Denom, BigUint> = BTreeMap::new();
        let mut add = |d: Denom, v: u128| *issued.entry(d).or_insert_with(BigUint::zero) += BigUint::from(v);
        for tx in ob.txs.iter() {
            let h = tx.hash_nosigs();
            if tx.kind == TxKind::Faucet && ob.pre.net == melstructs::NetID::Mainnet && h != crate::plan::grandfathered_faucet().hash_nosigs() {
                // a faucet is an issuance rule off mainnet only (the one historical transaction excepted): whatever an
                // accepted mainnet faucet creates is value from nothing
                self.accepted_nonfaucet += 1;
            } else if tx.kind == TxKind::Faucet {
                for o in tx.outputs.iter() {
                    let d = if o.denom == Denom::NewCustom { Denom::Custom(h) } else { o.denom };
                    add(d, o.value.0);
                }
                add(Denom::Mel, tx.fee.0);
            } else {
                self.accepted_nonfaucet += 1;
                for o in tx.outputs.iter() {
                    if o.denom == Denom::NewCustom {
                        // a transaction's own new token: the denomination must not have existed before
                        if before.get(&Denom::Custom(h)).map_or(false, |v| !v.is_zero()) {
                            viol!("new-token-denomination-preexists", "token {} already had supply before the transaction creating it", h);
                        }
                        add(Denom::Custom(h), o.value.0);
                    }
                    if tx.kind == TxKind::DoscMint && o.denom == Denom::Erg && !matches!(ob.verdict.reject, Some(crate::refstf::Reason::BadMint(_))) {
                        // within the computed reward per RefSTF's independent evaluation of the mint
                        add(Denom::Erg, o.value.0);
                    }
                }
            }
        }
        for (d, a) in after.iter() {
            let b = before.get(d).cloned().unwrap_or_else(BigUint::zero);
            let allowed = b.clone() + issued.get(d).cloned().unwrap_or_else(BigUint::zero);
            if *a > allowed {
                let shape = if child_before_parent(ob.txs) { "child-first-batch" } else { "batch" };
                viol!(
                    format!("supply-increase-in-{}", shape),
                    "{} supply rose from {} to {} in an accepted batch of {} transaction(s) (kinds {:?}) that may issue at most {}",
                    show(d),
                    b,
                    a,
                    ob.txs.len(),
                    ob.txs.iter().map(|t| format!("{:?}", t.kind)).collect::<Vec<_>>(),
                    issued.get(d).cloned().unwrap_or_else(BigUint::zero)
                );
            }
        }
        if has_dependency(ob.txs) {
            st.class(if child_before_parent(ob.txs) { "dependent-batch-child-first" } else { "dependent-batch-parent-first" });
        }
        self.digest.extend_from_slice(&ob.post.coins_root);
        Ok(())
    }

    fn on_seal(&mut self, w: &World, ob: &SealObs, st: &mut Stats) -> Check {
        self.seals += 1;
        let before = supply(ob.pre);
        let after = supply(ob.post);
        let tr = ob.trace;
        st.class_n("settled-swap-pools", tr.swaps.len() as u64);
        st.class_n("settled-deposit-pools", tr.deposits.len() as u64);
        st.class_n("settled-withdrawal-pools", tr.withdrawals.len() as u64);
        if legacy_deposit_regime(w.net, ob.pre.height) && !tr.deposits.is_empty() {
            st.exclude("legacy-deposit-regime-block");
            return Ok(());
        }
        let odd_requests = ob.pre.txs.iter().any(|t| {
            matches!(t.kind, TxKind::Swap | TxKind::LiqDeposit | TxKind::LiqWithdraw)
                && melstructs::PoolKey::from_bytes(&t.data).is_some()
                && refstf::canonical_key(&t.data).is_none()
        });
        let mut allowed: BTreeMap<Denom, BigUint> = BTreeMap::new();
        // liquidity tokens: growth of the pool's recorded liquidity
        for (k, p) in ob.post.pools.iter() {
            if k.left() == k.right() {
                continue;
            }
            let was = ob.pre.pools.get(k).map(|p| p.liqs).unwrap_or(0);
            if p.liqs > was {
                *allowed.entry(k.liq_token_denom()).or_insert_with(BigUint::zero) += BigUint::from(p.liqs - was);
            }
        }
        // creation of the built-in pools (10^9 on each side, owned by nobody) the first time a block is sealed
        for k in [
            melstructs::PoolKey::new(Denom::Mel, Denom::Sym),
            melstructs::PoolKey::new(Denom::Mel, Denom::Erg),
            melstructs::PoolKey::new(Denom::Erg, Denom::Sym),
        ] {
            if !ob.pre.pools.contains_key(&k) && ob.post.pools.contains_key(&k) {
                *allowed.entry(k.left()).or_insert_with(BigUint::zero) += BigUint::from(1_000_000_000u128);
                *allowed.entry(k.right()).or_insert_with(BigUint::zero) += BigUint::from(1_000_000_000u128);
                st.class("builtin-pool-created");
            }
        }
        // subsidy
        *allowed.entry(Denom::Sym).or_insert_with(BigUint::zero) += BigUint::from(tr.subsidy_sym);
        // peg: bounded by the (unthrottled) distance to the target
        let relax = odd_requests || tr.unspecified.is_some();
        let ms = melstructs::PoolKey::new(Denom::Mel, Denom::Sym);
        let (l, r) = ob.post.pools.get(&ms).map(|p| (p.lefts, p.rights)).unwrap_or((0, 0));
        let mel_gap = if relax { tr.peg_mel_in.saturating_mul(1000).max(l / 50) } else { tr.peg_mel_in.saturating_mul(1000).saturating_add(1000) };
        let sym_gap = if relax { tr.peg_sym_in.saturating_mul(1000).max(r / 50) } else { tr.peg_sym_in.saturating_mul(1000).saturating_add(1000) };
        *allowed.entry(Denom::Mel).or_insert_with(BigUint::zero) += BigUint::from(mel_gap);
        *allowed.entry(Denom::Sym).or_insert_with(BigUint::zero) += BigUint::from(sym_gap);
        if tr.peg_mel_in > 0 || tr.peg_sym_in > 0 {
            st.class("peg-adjusted");
        }
        if tr.subsidy_sym > 0 {
            st.class("subsidy-block");
        }
        for (d, a) in after.iter() {
            let b = before.get(d).cloned().unwrap_or_else(BigUint::zero);
            let lim = b.clone() + allowed.get(d).cloned().unwrap_or_else(BigUint::zero);
            if *a > lim {
                let what = if !tr.deposits.is_empty() || !tr.swaps.is_empty() || !tr.withdrawals.is_empty() || odd_requests {
                    if odd_requests { "seal-with-oddly-spelled-pool-requests" } else { "seal-with-pool-requests" }
                } else {
                    "seal"
                };
                viol!(
                    format!("supply-increase-at-{}", what),
                    "{} supply rose from {} to {} when block {} was sealed (allowed issuance {}); block kinds {:?}",
                    show(d),
                    b,
                    a,
                    ob.pre.height,
                    allowed.get(d).cloned().unwrap_or_else(BigUint::zero),
                    ob.pre.txs.iter().map(|t| (format!("{:?}", t.kind), hex::encode(&t.data[..t.data.len().min(40)]))).collect::<Vec<_>>()
                );
            }
        }
        self.digest.extend_from_slice(&ob.post.coins_root);
        Ok(())
    }

    fn on_end(&mut self, _w: &World, st: &mut Stats) -> Check {
        if self.accepted_nonfaucet >= 1 && self.seals >= 1 {
            st.nontrivial(h64(&self.digest));
        }
        Ok(())
    }
}

pub fn profile() -> Profile {
    let mut p = Profile::general();
    p.past_legacy_half = true;
    p.p_teleport = 1;
    p.kind_w[7] = 4;
    p.low_dosc_start = true;
    p.grandfathered_faucet = true;
    p
}

/// Histories dense in proof-of-work mints, from a low recorded DOSC speed: coins of several ages are minted against in
/// consecutive blocks, so that the speed recorded when a coin was created, the previous block's and the current one
/// all differ; a fifth of the mints claim one unit above the reward.
pub fn arb_mint_plan(p: &Profile) -> impl proptest::strategy::Strategy<Value = crate::plan::Plan> {
    use crate::plan::{arb_cfg, arb_tx, kind_byte, Step};
    use proptest::prelude::*;
    let p2 = p.clone();
    (arb_cfg(), 1usize..4, proptest::collection::vec((proptest::collection::vec((arb_tx(2, 3), 0u8..10), 1..4), any::<u32>()), 3..8)).prop_map(move |(mut cfg, lead, rounds)| {
        cfg.fee_pool -= cfg.fee_pool % 3; // the low starting speed
        let mut steps = vec![];
        // a block of ordinary transactions first (coins to mint against), then a few empty blocks
        steps.push(Step::Batch(vec![], 0));
        for _ in 0..lead {
            steps.push(Step::Seal(None));
        }
        for (txs, order) in rounds {
            let mut b = vec![];
            for (mut t, what) in txs {
                t.kind = kind_byte(&p2, if what < 7 { 7 } else { 0 }, t.kind);
                t.mutation = 255;
                b.push(t);
            }
            steps.push(Step::Batch(b, order));
            steps.push(Step::Seal(None));
        }
        crate::plan::Plan { cfg, steps }
    })
}

pub fn run(ctx: &Ctx) -> (Outcome, String, Option<bool>) {
    let mut p = profile();
    if ctx.thorough() {
        p.max_steps = 40;
        p.max_txs = 12;
    }
    let out = super::hist::run_histories(ctx, "histories", p, ctx.scale(1200, 12000), C01::default);
    let mut out = out;
    out.absorb(crate::runner::run_sharded(ctx, "extreme-deposits", ctx.scale(600, 10000), super::c16::arb_extreme, |c, st, shard| super::c16::check_extreme(c, st, shard)));
    {
        let p3 = profile();
        let prof3 = p3.clone();
        out.absorb(crate::runner::run_sharded(
            ctx,
            "mint-histories",
            ctx.scale(300, 4000),
            move || arb_mint_plan(&prof3),
            |plan, st, shard| {
                st.eval();
                st.class("mint-history");
                crate::plan::run_plan(plan, &p3, &mut C01::default(), st, shard)
            },
        ));
    }
    {
        // liquidity lifecycles (C16's plan shape under C15's pool-heavy profile): several swaps from both sides, several
        // deposits and withdrawals per pool per block - judged by this check's conservation oracle
        let mut p4 = super::c15::profile2();
        // canonical spellings only: a block with oddly spelled requests widens the peg allowance of MEL and SYM to 2 % of
        // the reserve, which would hide small over-payments on the built-in pools
        p4.p_odd_spelling = 0;
        let prof4 = p4.clone();
        out.absorb(crate::runner::run_sharded(
            ctx,
            "liquidity-lifecycles",
            ctx.scale(250, 4000),
            move || {
                use proptest::strategy::Strategy;
                super::c16::arb_liquidity_plan(&prof4).prop_map(|p| super::hist::Phase2 { phase2: p })
            },
            |plan, st, shard| {
                st.eval();
                st.class("lifecycle-history");
                crate::plan::run_plan(&plan.phase2, &p4, &mut C01::default(), st, shard)
            },
        ));
    }
    out.absorb(super::hist::run_sampled_heights(ctx, &profile(), ctx.scale(300, 3000), C01::default));
    let rule = "Also: the first phase's kind of histories on mainnet/testnet (85%) started at a height sampled anywhere below 2 000 000 (TIP-906 barrier crossed honestly first). Fourth phase: liquidity lifecycles (several swaps from both sides, deposits and withdrawals per pool per block; C15's pool-heavy profile), same conservation oracle. Third phase: histories dense in genuine proof-of-work mints from a low recorded DOSC speed (coins of several ages, consecutive blocks, a fifth of the claims one unit above the reward). Second phase: C16's hand-built scenarios at the edge of the u128 liquidity counter (two fresh tokens, 2-6 deposits of 2^0..2^120 per side, withdrawals), checked for issuance: liquidity tokens handed out in a block <= rise of the pool's counter; coins + reserve of either token <= what was created. First phase: generated histories (2-14 steps quick / 2-40 thorough) on Custom02/Custom08/Testnet/Mainnet: batches of valid-by-construction transactions of every kind (normal, faucet, swap, deposit, withdraw, stake, new token) with dependent transactions inside a batch, shuffled orders, ~15% adversarial mutations, pool keys in canonical and 6 alternative spellings, proposer actions, restarts. Oracle: invariant on the real state read through the cfg(melstf_verif) view: per denomination, coins + pool reserves (+ fee pool + tips for MEL) after a batch <= before + faucet outputs/fee + the transaction's own new token + ERG of mints; after a seal <= before + growth of the pool's recorded liquidity (for liquidity tokens) + the TIP-909 subsidy + the unthrottled peg distance computed by RefSTF. Non-trivial = history with >=1 accepted non-faucet transaction and >=1 seal; distinct by the sequence of coin roots.".to_string();
    (out, rule, None)
}

pub fn replay(case: &serde_json::Value) -> Check {
    if case.get("deposits").is_some() {
        return super::c16::replay(case);
    }
    super::hist::replay_any(case, &profile(), &{ let mut p = super::c15::profile2(); p.p_odd_spelling = 0; p }, C01::default())
}
