//! C13 — staked SYM is locked for the life of the stake; voting power follows the stakes.
use std::collections::BTreeMap;

use melstructs::{Denom, StakeDoc, TxHash, TxKind};
use stdcode::StdcodeSerializeExt;

use crate::evidence::{Check, Stats};
use crate::plan::{BatchObs, Monitor, Profile, SealObs};
use crate::refstf;
use crate::runner::{Ctx, Outcome};
use crate::util::h64;
use crate::viol;
use crate::world::{pk, Outcome as O, World, NKEYS};

#[derive(Default)]
pub struct C13 {
    /// stakes the harness considers registered (by the property's rule), with the epoch of registration
    registry: BTreeMap<TxHash, (StakeDoc, u64)>,
    /// genesis stakes
    seeded: bool,
    attempts: BTreeMap<TxHash, Vec<(u64, bool)>>, // (epoch, accepted)
    digest: Vec<String>,
}

fn epoch(h: u64) -> u64 {
    h / 200_000
}

fn ordering_class(doc: &StakeDoc, cur: u64) -> String {
    let a = match doc.e_start.cmp(&cur) {
        std::cmp::Ordering::Less => "start<cur",
        std::cmp::Ordering::Equal => "start=cur",
        std::cmp::Ordering::Greater => "start>cur",
    };
    let b = match doc.e_post_end.cmp(&doc.e_start) {
        std::cmp::Ordering::Less => "end<start",
        std::cmp::Ordering::Equal => "end=start",
        std::cmp::Ordering::Greater => {
            if doc.e_post_end == u64::MAX {
                "end=max"
            } else {
                "end>start"
            }
        }
    };
    format!("{},{}", a, b)
}

impl Monitor for C13 {
    fn on_start(&mut self, w: &World, _st: &mut Stats) -> Check {
        if !self.seeded {
            for (k, d) in w.snap().stakes.iter() {
                self.registry.insert(*k, (*d, 0));
            }
            self.seeded = true;
        }
        Ok(())
    }

    fn on_batch(&mut self, w: &World, ob: &BatchObs, st: &mut Stats) -> Check {
        let h = ob.pre.height;
        let e = epoch(h);
        let legacy_stake = refstf::stake_regime_legacy(w.net, h);
        let legacy_lock = refstf::lock_regime_legacy(w.net, h);
        if legacy_stake {
            st.exclude("legacy-staking-regime-height");
            return Ok(());
        }
        // between 500 000 and 900 000 on mainnet/testnet stake documents are registered but the lock is not enforced
        // (bug compatibility): registration is followed, the two lock verdicts are not judged
        let lock_enforced = !legacy_lock;
        // stakes declared in this batch that satisfy the registration rule
        let mut new_ok: BTreeMap<TxHash, StakeDoc> = BTreeMap::new();
        for tx in ob.txs.iter().filter(|t| t.kind == TxKind::Stake) {
            if let Ok(doc) = stdcode::deserialize::<StakeDoc>(&tx.data) {
                st.class(&format!("stake-doc-{}", ordering_class(&doc, e)));
                if stdcode::serialize(&doc).map_or(false, |c| c[..] != tx.data[..]) {
                    st.class("stake-doc-in-non-minimal-encoding");
                }
                let first_ok = tx.outputs.first().map_or(false, |o| o.denom == Denom::Sym && o.value == doc.syms_staked);
                if first_ok && doc.e_start > e && doc.e_post_end > doc.e_start {
                    new_ok.insert(tx.hash_nosigs(), doc);
                }
            } else {
                st.class("stake-doc-undecodable");
            }
        }
        // spend attempts on first outputs of registered stakes (already registered, or registered by this very batch)
        let mut locked_attempt: Option<(TxHash, u64)> = None;
        let mut unlocked_attempt: Vec<TxHash> = vec![];
        for tx in ob.txs.iter() {
            for i in tx.inputs.iter().filter(|i| i.index == 0) {
                let doc = self.registry.get(&i.txhash).map(|x| x.0).or_else(|| new_ok.get(&i.txhash).copied());
                if let Some(doc) = doc {
                    if e <= doc.e_post_end {
                        locked_attempt = Some((i.txhash, doc.e_post_end));
                    } else {
                        unlocked_attempt.push(i.txhash);
                    }
                    self.attempts.entry(i.txhash).or_default().push((e, matches!(ob.outcome, O::Ok(()))));
                }
            }
        }
        match ob.outcome {
            O::Ok(()) => {
                if let (Some(_), false) = (locked_attempt, lock_enforced) {
                    st.class("staked-coin-spent-in-the-legacy-lock-window");
                }
                if let (Some((txh, end)), true) = (locked_attempt, lock_enforced) {
                    let when = if new_ok.contains_key(&txh) { "in-the-registering-batch" } else if e == end { "in-its-end-epoch" } else { "before-its-end-epoch" };
                    viol!(
                        format!("staked-coin-spent-while-locked-{}", when),
                        "the first output of stake {} (end epoch {}) was spent at height {} (epoch {})",
                        txh,
                        end,
                        h,
                        e
                    );
                }
                // registration: registered => rule holds
                for tx in ob.txs.iter().filter(|t| t.kind == TxKind::Stake) {
                    let txh = tx.hash_nosigs();
                    let registered = ob.post.stakes.contains_key(&txh);
                    let should = new_ok.contains_key(&txh);
                    if registered && !should {
                        let doc: Option<StakeDoc> = stdcode::deserialize(&tx.data).ok();
                        viol!(
                            "inconsistent-stake-registered",
                            "stake transaction {} was registered although its document {:?} / first output {:?} do not satisfy the rule at epoch {}",
                            txh,
                            doc,
                            tx.outputs.first().map(|o| (format!("{}", o.denom), o.value.0)),
                            e
                        );
                    }
                    if registered {
                        self.registry.insert(txh, (new_ok[&txh], e));
                        st.class("stake-registered");
                    } else if should {
                        st.class("consistent-stake-not-registered");
                        // not a stated requirement; but then it must not be locked or counted either
                    } else {
                        st.class("inconsistent-stake-accepted-unregistered");
                    }
                }
                for t in unlocked_attempt {
                    st.class("expired-stake-output-spent");
                    let _ = t;
                }
            }
            O::Rejected(err) => {
                if lock_enforced && err.contains("CoinLocked") && locked_attempt.is_none() {
                    // every input that is a stake's first output is past its end epoch: the lock must be gone.
                    // (non-first outputs of staking transactions are locked by the implementation, unspecified by the property)
                    let non_first = ob.txs.iter().any(|t| {
                        t.inputs.iter().any(|i| i.index != 0 && (self.registry.contains_key(&i.txhash) || new_ok.contains_key(&i.txhash) || ob.pre.stakes.contains_key(&i.txhash)))
                    });
                    let unknown = ob.txs.iter().any(|t| t.inputs.iter().any(|i| ob.pre.stakes.contains_key(&i.txhash) && !self.registry.contains_key(&i.txhash)));
                    if !non_first && !unknown && !unlocked_attempt.is_empty() {
                        viol!(
                            "expired-stake-still-locked",
                            "spending the first output of stake(s) {:?} at height {} (epoch {}) is rejected as locked although their end epochs have passed",
                            unlocked_attempt,
                            h,
                            e
                        );
                    }
                }
                if locked_attempt.is_some() {
                    st.class("locked-spend-rejected");
                }
            }
            O::Panicked(_) => {}
        }
        Ok(())
    }

    fn on_seal(&mut self, w: &World, ob: &SealObs, st: &mut Stats) -> Check {
        let h = ob.post.height;
        let e = epoch(h);
        if refstf::stake_regime_legacy(w.net, h) {
            return Ok(());
        }
        // what the real set holds vs the registry, for stakes that still matter
        let real = ob.sealed.raw_stakes();
        // drop from the registry what has expired: end epoch < current epoch
        let live: BTreeMap<TxHash, StakeDoc> = self.registry.iter().filter(|(_, (d, _))| d.e_post_end >= e).map(|(k, v)| (*k, v.0)).collect();
        for ee in e..e + 5 {
            let mut total: u128 = 0;
            for k in 0..NKEYS {
                let want: u128 = live.values().filter(|d| d.pubkey == pk(k) && d.e_start <= ee && ee < d.e_post_end).map(|d| d.syms_staked.0).sum();
                let got = real.votes(ee, pk(k));
                if got != want {
                    viol!(
                        "voting-power-wrong",
                        "state at height {} (epoch {}): key {} has {} votes in epoch {}, registered stakes give {}",
                        h,
                        e,
                        k,
                        got,
                        ee,
                        want
                    );
                }
                total += want;
            }
            // genesis stakes may use keys outside the harness's key list; compare totals only when none do
            let foreign = live.values().any(|d| (0..NKEYS).all(|k| pk(k) != d.pubkey));
            if !foreign && real.total_votes(ee) != total {
                viol!("total-voting-power-wrong", "state at height {}: total votes in epoch {} are {}, registered stakes give {}", h, ee, real.total_votes(ee), total);
            }
        }
        // the commitment holds exactly the registered, unexpired stakes
        let entries: BTreeMap<[u8; 32], Vec<u8>> = live.iter().map(|(k, d)| (tmelcrypt::hash_single(&k.stdcode()).0, d.stdcode())).collect();
        let db = novasmt::Database::new(novasmt::InMemoryCas::default());
        let mut t = db.get_tree([0; 32]).unwrap();
        for (k, v) in entries.iter() {
            t.insert(*k, v);
        }
        if t.root_hash() != ob.sealed.header().stakes_hash.0 {
            let real_keys: Vec<TxHash> = real.iter().map(|x| *x.0).collect();
            let missing: Vec<&TxHash> = live.keys().filter(|k| !real_keys.contains(k)).collect();
            let extra: Vec<&TxHash> = real_keys.iter().filter(|k| !live.contains_key(k)).collect();
            viol!(
                if !extra.is_empty() { "stake-commitment-holds-expired-or-unregistered-stake" } else { "stake-commitment-misses-stake" },
                "stakes_hash at height {} (epoch {}) does not commit to exactly the registered, unexpired stakes: missing {:?}, extra {:?}",
                h,
                e,
                missing,
                extra
            );
        }
        if !live.is_empty() {
            st.class("sealed-with-live-stakes");
        }
        Ok(())
    }

    fn on_end(&mut self, _w: &World, st: &mut Stats) -> Check {
        for (txh, a) in self.attempts.iter() {
            let mut epochs: Vec<u64> = a.iter().map(|x| x.0).collect();
            epochs.sort();
            epochs.dedup();
            if epochs.len() >= 2 {
                if let Some((d, _)) = self.registry.get(txh) {
                    self.digest.push(format!("{:?}|{:?}", (d.e_start, d.e_post_end), a));
                }
            }
        }
        if !self.digest.is_empty() {
            st.nontrivial(h64(self.digest.join(";").as_bytes()));
            st.class("stake-spend-attempted-in-two-epochs");
        }
        Ok(())
    }
}

pub fn profile() -> Profile {
    let mut p = Profile::general();
    p.net_w = [50, 15, 20, 15, 0, 0, 0, 0, 0];
    p.kind_w = [40, 22, 4, 0, 0, 32, 2, 0, 0];
    p.p_mut = 8;
    p.max_txs = 4;
    p.max_steps = 26;
    p.p_teleport = 1;
    p.start_past_legacy = true;
    p.prefer_staked = true;
    p
}

pub fn arb_stake_plan(p: &Profile) -> impl proptest::strategy::Strategy<Value = crate::plan::Plan> {
    use proptest::prelude::*;
    // more epoch jumps than the default step mix
    (crate::plan::arb_plan(p), proptest::collection::vec((any::<u16>(), 0u8..7), 3..8)).prop_map(|(mut plan, jumps)| {
        for (pos, c) in jumps {
            let i = crate::util::sel(pos, plan.steps.len() + 1);
            plan.steps.insert(i, crate::plan::Step::Seal(None));
            plan.steps.insert(i, crate::plan::Step::Teleport(c));
            plan.steps.insert(i, crate::plan::Step::Seal(None));
        }
        plan
    })
}

/// A stake's whole life, by construction: funds, one to three stake transactions, then an epoch boundary crossed
/// again and again with spends aimed at the staked coins in every epoch (before the start, during, in the end epoch,
/// after it), other stakes registered on the way.
pub fn arb_lifecycle_plan(p: &Profile) -> impl proptest::strategy::Strategy<Value = crate::plan::Plan> {
    use crate::plan::{arb_cfg, arb_tx, kind_byte, Step};
    use proptest::prelude::*;
    let stake = kind_byte(p, 5, 0);
    let p2 = p.clone();
    (
        arb_cfg(),
        proptest::collection::vec(arb_tx(2, 3), 1..4),
        proptest::collection::vec((proptest::collection::vec((arb_tx(3, 3), 0u8..8), 1..4), any::<u32>(), any::<u8>()), 3..8),
    )
        .prop_map(move |(cfg, stakes, epochs)| {
            let mut steps = vec![];
            let mut first = vec![];
            for mut t in stakes {
                t.kind = stake;
                t.mutation = 255; // never mutated: the point is a registered stake
                first.push(t);
            }
            steps.push(Step::Batch(first, 0));
            steps.push(Step::Seal(None));
            for (txs, order, walk) in epochs {
                if walk % 8 != 0 {
                    // to the last block of the current epoch, then across it
                    steps.push(Step::Teleport(0));
                    steps.push(Step::Seal(None));
                }
                let mut b = vec![];
                for (mut t, what) in txs {
                    match what {
                        0 => t.kind = stake,
                        _ => {
                            t.kind = kind_byte(&p2, 0, t.kind);
                            if what < 6 {
                                t.amount -= t.amount % 3; // aim at a staked coin
                            }
                        }
                    }
                    b.push(t);
                }
                steps.push(Step::Batch(b, order));
                steps.push(Step::Seal(None));
            }
            crate::plan::Plan { cfg, steps }
        })
}

pub fn run(ctx: &Ctx) -> (Outcome, String, Option<bool>) {
    let mut p = profile();
    if ctx.thorough() {
        p.max_steps = 44;
        p.max_txs = 6;
    }
    let prof = p.clone();
    let out = crate::runner::run_sharded(
        ctx,
        "stake-histories",
        ctx.scale(1200, 12000),
        move || arb_stake_plan(&prof),
        |plan, st, shard| {
            st.eval();
            let r = crate::plan::run_plan(plan, &p, &mut C13::default(), st, shard);
            if st.want_sample() {
                st.sample(|| super::hist::plan_summary(plan));
            }
            r
        },
    );
    let mut out = out;
    let p2 = profile2();
    let prof2 = p2.clone();
    out.absorb(crate::runner::run_sharded(
        ctx,
        "stake-lifecycles",
        ctx.scale(500, 5000),
        move || {
            use proptest::strategy::Strategy;
            arb_lifecycle_plan(&prof2).prop_map(|p| super::hist::Phase2 { phase2: p })
        },
        |plan, st, shard| {
            st.eval();
            st.class("lifecycle-history");
            let r = crate::plan::run_plan(&plan.phase2, &p2, &mut C13::default(), st, shard);
            if st.want_sample() {
                st.sample(|| super::hist::plan_summary(&plan.phase2));
            }
            r
        },
    ));
    let rule = "Second phase (45 % on testnet/mainnet; a third of those start a few blocks below height 900 000, where stakes are registered but not yet locked, and carry their stakes across the switch), stake lifecycles by construction: funds, 1-3 stake transactions, then 3-7 rounds of (jump to the last block of the current epoch, cross it honestly, a batch of ordinary transactions aimed at the staked coins and further stakes, seal), so that every registered stake is attacked before its start, while active, in its end epoch and after it. First phase: generated histories on Custom02/Custom08 from genesis and on Testnet/Mainnet started above the legacy heights (jump to the TIP-906 barrier, honest crossing, jump to 979 000), with 30% stake transactions whose documents cover start <,=,> current epoch, end <,=,> start, end = u64::MAX, amount equal / off by one, undecodable data, plus genesis stakes; ordinary transactions then pick inputs at random from a wallet that keeps the staked coins, so spends of a stake's first output are attempted in the registering batch, the same block, later blocks and - through 2-5 inserted jumps to the last block of an epoch followed by honest blocks - in later epochs, including the end epoch and the one after. Oracle: registered (post-state stake set) => first output is SYM equal to the declared amount, start > epoch, end > start; an accepted batch never spends the first output of a registered stake while epoch <= its end field (also not in the registering batch); a batch rejected as 'locked' although all stake outputs it touches are past their end epoch is a violation; after every seal, votes(e, key) and total_votes(e) for the five epochs from the current one equal the sums over registered stakes with start <= e < end, and stakes_hash equals the root rebuilt from exactly the registered stakes with end >= current epoch. Non-trivial = a history in which a registered stake's first output is targeted in >=2 different epochs; distinct by (document epochs, attempt list).".to_string();
    (out, rule, None)
}

pub fn profile2() -> Profile {
    let mut p2 = profile();
    p2.seed_funds = true;
    p2.net_w = [50, 20, 20, 10, 0, 0, 0, 0, 0];
    p2.p_mut = 3;
    p2.net_w = [40, 15, 25, 20, 0, 0, 0, 0, 0];
    p2.stake_window_start = true;
    p2
}

pub fn replay(case: &serde_json::Value) -> Check {
    super::hist::replay_two_phase(case, &profile(), &profile2(), C13::default())
}
