pub mod c01;
pub mod c02;
pub mod c09;
pub mod c10;
pub mod c11;
pub mod c12;
pub mod c20;
pub mod hist;
