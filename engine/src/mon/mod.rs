pub mod c10;
pub mod c11;
pub mod c12;
