//! C12 — covenant bytecode encoding is a bijection.
use proptest::prelude::*;
use serde_json::json;

use crate::evidence::{Check, Stats, Violation};
use crate::refvm::{self, ROp, RunEnd};
use crate::runner::{run_enumeration, run_sharded, Ctx, Outcome};
use crate::util::{catch, h64, hex};
use crate::viol;

const MAX_LOOPS_FOR_WEIGHT: usize = 10;

fn loops_in(ops: &[ROp]) -> usize {
    ops.iter().filter(|o| matches!(o, ROp::Loop(_, _))).count()
}

/// The whole C12 oracle for one byte string.
pub fn check_bytes(b: &[u8], st: &mut Stats, deep: bool) -> Check {
    st.eval();
    let real = match catch(|| melvm::Covenant::from_bytes(b)) {
        Ok(r) => r,
        Err(p) => viol!("decode-panic", "from_bytes panicked on {}: {:?}", hex(b), p),
    };
    let reference = refvm::decode(b);
    match (&real, &reference) {
        (Ok(c), Ok(rops)) => {
            let ops: Vec<ROp> = c.to_ops().iter().map(refvm::from_real_op).collect();
            if &ops != rops {
                viol!("decode-differs", "bytes {} decode to {:?} but the reference decoder gives {:?}", hex(b), ops, rops);
            }
            let re = c.to_bytes();
            if re.as_ref() != b {
                viol!("roundtrip-bytes", "bytes {} decode and re-encode to {}", hex(b), hex(&re));
            }
            if refvm::encode(rops).as_deref() != Some(b) {
                viol!("ref-roundtrip", "reference encoder disagrees on {}", hex(b));
            }
            let has_operand = rops.iter().any(|o| refvm::encode(std::slice::from_ref(o)).map(|e| e.len() > 1).unwrap_or(false));
            if has_operand {
                st.nontrivial(h64(b));
                st.class("decoded-with-operand");
            } else {
                st.class("decoded-plain");
            }
            if deep {
                check_program_views(c, rops, b, st)?;
            }
        }
        (Err(_), Err(e)) => {
            // a byte string that names no program weighs nothing wherever a weight is computed from bytes (the fee
            // rule charges a transaction for the covenants it carries through this very function): the weigh site and
            // the decoder must agree on which strings are programs
            match catch(|| melvm::covenant_weight_from_bytes(b)) {
                Ok(0) => {}
                Ok(w) => viol!("undecodable-bytes-have-a-weight", "bytes {} do not decode, yet covenant_weight_from_bytes gives {}", hex(&b[..b.len().min(64)]), w),
                Err(p) => viol!("decode-panic", "covenant_weight_from_bytes panicked on {}: {:?}", hex(&b[..b.len().min(64)]), p),
            }
            // non-trivial when at least one instruction decoded before the rejection
            let first_ok = (1..b.len()).any(|i| refvm::decode(&b[..i]).map(|o| !o.is_empty()).unwrap_or(false));
            if first_ok {
                st.nontrivial(h64(b));
            }
            st.class(match e {
                refvm::RDecodeErr::Truncated => "rejected-truncated",
                refvm::RDecodeErr::BadOpcode(_) => "rejected-bad-opcode",
                refvm::RDecodeErr::NonCanonical => "rejected-noncanonical",
            });
        }
        (Ok(c), Err(e)) => viol!(
            "accepts-invalid",
            "bytes {} are accepted as {:?} but must be rejected ({:?})",
            hex(b),
            c.to_ops(),
            e
        ),
        (Err(e), Ok(r)) => viol!("rejects-valid", "bytes {} are rejected ({:?}) but denote {:?}", hex(b), e, r),
    }
    Ok(())
}

/// hash / weight / behaviour must not depend on whether the covenant came from bytes or from instructions.
fn check_program_views(c: &melvm::Covenant, rops: &[ROp], b: &[u8], st: &mut Stats) -> Check {
    let from_ops = melvm::Covenant::from_ops(&c.to_ops());
    if from_ops.hash() != c.hash() || from_ops.hash().0 .0 != *blake3::hash(b).as_bytes() {
        viol!("hash-differs", "covenant hash differs between bytes and ops for {}", hex(b));
    }
    if loops_in(rops) <= MAX_LOOPS_FOR_WEIGHT {
        let w1 = c.weight();
        let w2 = from_ops.weight();
        let w3 = melvm::covenant_weight_from_bytes(b);
        let wr = refvm::weight(rops);
        if w1 != w2 || w1 != w3 || w1 != wr {
            viol!(
                "weight-differs",
                "weight of {}: from_bytes {} from_ops {} covenant_weight_from_bytes {} reference {}",
                hex(b),
                w1,
                w2,
                w3,
                wr
            );
        }
        if wr <= 20_000 {
            let mut ex = refvm::RefExec::new(rops, Default::default());
            let rr = ex.run(100_000);
            if rr != RunEnd::Budget {
                let a = catch(|| c.debug_execute(&[]));
                let bb = catch(|| from_ops.debug_execute(&[]));
                match (a, bb) {
                    (Ok(a), Ok(bb)) => {
                        if a != bb {
                            viol!("behaviour-differs", "execution differs between bytes and ops for {}", hex(b));
                        }
                        st.class("executed-both-views");
                    }
                    _ => viol!("exec-panic", "execution panicked for {}", hex(b)),
                }
            }
        }
    } else {
        st.exclude("weight-skipped-many-loops");
    }
    Ok(())
}

/// ops -> bytes -> ops
pub fn check_ops(ops: &[ROp], st: &mut Stats) -> Check {
    st.eval();
    let real_ops: Vec<_> = ops.iter().map(refvm::to_real_op).collect();
    let c = melvm::Covenant::from_ops(&real_ops);
    let bytes = match catch(|| c.to_bytes()) {
        Ok(b) => b,
        Err(p) => viol!("encode-panic", "to_bytes panicked for {:?}: {:?}", ops, p),
    };
    let refb = refvm::encode(ops).expect("generator only yields representable programs");
    if bytes.as_ref() != refb.as_slice() {
        viol!("encode-differs", "ops {:?} encode to {} but the reference gives {}", ops, hex(&bytes), hex(&refb));
    }
    let back = match catch(|| melvm::Covenant::from_bytes(&bytes)) {
        Ok(Ok(c2)) => c2,
        Ok(Err(e)) => viol!("roundtrip-ops-rejected", "encoding of {:?} = {} does not decode: {:?}", ops, hex(&bytes), e),
        Err(p) => viol!("decode-panic", "from_bytes panicked on {}: {:?}", hex(&bytes), p),
    };
    // PushIC and PushI carry the same value but are distinct instructions; equality must be exact
    if back.to_ops() != real_ops {
        viol!("roundtrip-ops", "ops {:?} -> {} -> {:?}", ops, hex(&bytes), back.to_ops());
    }
    if !ops.is_empty() {
        st.nontrivial(h64(&bytes));
    }
    check_program_views(&back, ops, &bytes, st)
}

fn mutate(mut b: Vec<u8>, muts: &[(u16, u8, u8)]) -> Vec<u8> {
    for &(pos, kind, val) in muts {
        if b.is_empty() {
            b.push(val);
            continue;
        }
        let i = crate::util::sel(pos, b.len());
        match kind % 4 {
            0 => b[i] = val,
            1 => b.insert(i, val),
            2 => {
                b.remove(i);
            }
            _ => b.truncate(i),
        }
    }
    b
}

pub fn run(ctx: &Ctx) -> (Outcome, String, Option<bool>) {
    let mut out = Outcome::empty();

    // (a) exhaustive: every byte string of length 0..=3, split by first byte
    let firsts: Vec<u32> = (0..256).collect();
    let o = run_enumeration(ctx, "exhaustive-le3", firsts, |first, st, _| {
        let f = *first as u8;
        let mut buf;
        if f == 0 {
            check_bytes(&[], st, false)?;
        }
        check_bytes(&[f], st, false)?;
        for a in 0..=255u8 {
            buf = [f, a, 0];
            check_bytes(&buf[..2], st, false)?;
            for b in 0..=255u8 {
                buf[2] = b;
                check_bytes(&buf, st, false)?;
            }
        }
        if st.want_sample() {
            st.sample(|| json!({"kind": "exhaustive", "all strings starting with": format!("{:02x}", f)}));
        }
        Ok(())
    });
    out.absorb(o);

    // (b) every opcode byte x truncations, pushic with every length byte and leading-zero pattern
    let opbytes: Vec<u32> = (0..256).collect();
    let o = run_enumeration(ctx, "opcode-truncations", opbytes, |opb, st, _| {
        let opb = *opb as u8;
        // operand bytes patterns
        for pat in [0x00u8, 0x01, 0x7f, 0x80, 0xff] {
            for len in 0..=40usize {
                let mut b = vec![opb];
                b.extend(std::iter::repeat(pat).take(len));
                check_bytes(&b, st, true)?;
            }
        }
        if opb == 0xf2 || opb == 0xf0 {
            for n in 0..=255u8 {
                for lead in [0x00u8, 0x01, 0xff] {
                    // the rest of the payload: mixed, all zero (with a zero lead: the value 0 at every length), all ones
                    for fill in [0x55u8, 0x00, 0xff] {
                        for extra in [0usize, 1] {
                            let total = (n as usize + extra).min(300);
                            for short in [0usize, 1] {
                                let mut b = vec![opb, n];
                                if total >= short {
                                    let l = total - short;
                                    if l > 0 {
                                        b.push(lead);
                                        b.extend(std::iter::repeat(fill).take(l - 1));
                                    }
                                }
                                check_bytes(&b, st, true)?;
                                // ... and the same literal inside a program
                                let mut c = vec![0x09u8];
                                c.extend_from_slice(&b);
                                c.extend_from_slice(&[0xf2, 0x01, 0x01, 0x10]);
                                check_bytes(&c, st, false)?;
                            }
                        }
                    }
                }
            }
        }
        Ok(())
    });
    out.absorb(o);

    // (b') very long programs: more instructions than fit a u16 counter
    let longs: Vec<(u32, u8)> = vec![(65534, 0), (65535, 0), (65536, 0), (65537, 0), (70000, 0), (65535, 1), (65536, 1), (65536, 2), (65536, 3), (100000, 1), (131072, 2)];
    let o = run_enumeration(ctx, "long-programs", longs, |(n, tail), st, _| {
        let mut b = vec![0x09u8; *n as usize];
        match tail {
            1 => b.extend_from_slice(&[0xf2, 0x01, 0x01]), // pushic 1
            2 => b.push(0x01),                             // invalid opcode at the very end
            3 => b.extend_from_slice(&[0xb0, 0x00]),       // truncated loop at the very end
            _ => {}
        }
        check_bytes(&b, st, false)?;
        // hash / weight agree between the two views even for long programs
        if let Ok(c) = melvm::Covenant::from_bytes(&b) {
            let from_ops = melvm::Covenant::from_ops(&c.to_ops());
            if from_ops.to_bytes().as_ref() != b.as_slice() || from_ops.weight() != c.weight() || c.weight() != melvm::covenant_weight_from_bytes(&b) {
                viol!("long-program-views-differ", "a program of {} instructions differs between its byte and instruction views", c.to_ops().len());
            }
        }
        st.class("long-program");
        Ok(())
    });
    out.absorb(o);

    // (c) instruction lists with representable operands
    let cases = ctx.scale(40_000, 400_000);
    let o = run_sharded(
        ctx,
        "ops-roundtrip",
        cases,
        || proptest::collection::vec(crate::vmgen::arb_op(), 0..24),
        |ops, st, _| {
            let r = check_ops(ops, st);
            if st.want_sample() {
                st.sample(|| json!({"kind": "ops", "program": refvm::show_ops(ops)}));
            }
            r
        },
    );
    out.absorb(o);

    // (d) random byte strings and mutated valid encodings, up to 4 KiB
    let o = run_sharded(
        ctx,
        "bytes-random-mutated",
        ctx.scale(40_000, 400_000),
        || {
            prop_oneof![
                2 => proptest::collection::vec(any::<u8>(), 0..64),
                1 => proptest::collection::vec(any::<u8>(), 64..4096),
                4 => (proptest::collection::vec(crate::vmgen::arb_op(), 1..40),
                      proptest::collection::vec((any::<u16>(), any::<u8>(), any::<u8>()), 0..4))
                    .prop_map(|(ops, muts)| mutate(refvm::encode(&ops).unwrap(), &muts)),
                2 => (crate::vmgen::choices(40), proptest::collection::vec((any::<u16>(), any::<u8>(), any::<u8>()), 0..3))
                    .prop_map(|(ch, muts)| mutate(refvm::encode(&crate::vmgen::build_program(&ch)).unwrap(), &muts)),
                // near-misses of the standard signature covenants (a run of instructions replaced by other code of the same length)
                1 => any::<u64>().prop_map(crate::vmgen::near_miss_std),
            ]
        },
        |b, st, _| {
            let r = check_bytes(b, st, true);
            if st.want_sample() {
                st.sample(|| json!({"kind": "bytes", "hex": hex(&b[..b.len().min(48)]), "len": b.len()}));
            }
            r
        },
    );
    out.absorb(o);

    let rule = "Enumerated: every byte string of length 0-3 (16 843 009 strings) and every opcode byte followed by 0-40 operand bytes of 5 patterns, pushb/pushic with every length byte x leading byte x short/exact/long payload. Programs of 65 534 to 131 072 one-byte instructions with valid, invalid and truncated tails. Generated: instruction lists with operands over their full range (ops->bytes->ops), random strings to 4 KiB, mutated valid encodings and near-misses of the standard signature covenants (bytes->ops->bytes). Oracle: round trips, agreement with RefVM's independent decoder/encoder on accept/reject and instruction list, hash/weight/covenant_weight_from_bytes/debug_execute equal between the from_bytes and from_ops views; a string that does not decode has weight 0 at the weigh site (covenant_weight_from_bytes). Non-trivial = decodes to >=1 instruction carrying an operand, or is rejected after >=1 instruction decoded; distinct by bytes.".to_string();
    (out, rule, Some(true))
}

#[allow(dead_code)]
pub fn replay(case: &serde_json::Value) -> Check {
    let mut st = Stats::default();
    if let Ok(b) = serde_json::from_value::<Vec<u8>>(case.clone()) {
        return check_bytes(&b, &mut st, true);
    }
    if let Ok(ops) = serde_json::from_value::<Vec<ROp>>(case.clone()) {
        return check_ops(&ops, &mut st);
    }
    Err(Violation::new("replay-format", "cannot interpret replay case"))
}
