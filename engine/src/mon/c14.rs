//! C14 — a state is confirmed only by valid signatures from a >2/3 stake majority.
use std::collections::BTreeMap;

use melstructs::{CoinData, CoinValue, ConsensusProof, Denom, NetID, StakeDoc, TxHash};
use proptest::prelude::*;
use serde_json::json;

use crate::evidence::{Check, Stats, Violation};
use crate::runner::{run_enumeration, run_sharded, Ctx, Outcome};
use crate::util::{catch, h64};
use crate::viol;
use crate::world::{pk, sk, CovSpec, GenesisSpec, Outcome as O, Sealed, World, NKEYS};

#[derive(Clone, Debug, serde::Serialize, serde::Deserialize)]
pub struct Dist {
    /// (key index, weight, e_start, e_post_end)
    pub stakes: Vec<(u8, u64, u64, u64)>,
    /// bit i: key i signs
    pub subsets: Vec<u8>,
    /// signature class per case: 0 valid, 1 corrupted, 2 swapped, 3 foreign key, 4 wrong header
    pub sig_class: u8,
    pub blocks: u8,
    /// every weight is shifted left by this many bits (voting power up to 2^127) ...
    #[serde(default)]
    pub shift: u8,
    /// ... and stake i gets adds[i] added (so that totals of every residue mod 3 exist at every magnitude)
    #[serde(default)]
    pub adds: Vec<u8>,
}

fn amount(d: &Dist, i: usize) -> u128 {
    let sh = d.shift.min(120) as u32;
    let w = d.stakes[i].1 as u128;
    let base = if w > (u128::MAX >> 1) >> sh { (u128::MAX >> 1) >> sh << sh } else { w << sh };
    base.saturating_add(d.adds.get(i).copied().unwrap_or(0) as u128)
}

fn build(d: &Dist, shard: usize) -> Option<Sealed> {
    build_with(d, shard, 0)
}

/// `variant` changes only the genesis fee pool: same network, height and stakers, another header
fn build_with(d: &Dist, shard: usize, variant: u128) -> Option<Sealed> {
    let stakes: Vec<(TxHash, StakeDoc)> = d
        .stakes
        .iter()
        .enumerate()
        .map(|(i, (k, _w, s, e))| {
            (
                TxHash(tmelcrypt::hash_single(format!("c14-stake-{}", i).as_bytes())),
                StakeDoc { pubkey: pk(*k as usize), e_start: *s, e_post_end: *e, syms_staked: CoinValue(amount(d, i)) },
            )
        })
        .collect();
    let g = GenesisSpec {
        net: NetID::Custom02,
        init: CoinData { covhash: CovSpec::True.hash(), value: CoinValue(1 << 60), denom: Denom::Mel, additional_data: Default::default() },
        init_cov: CovSpec::True,
        fee_pool: variant,
        fee_mult: 100,
        stakes,
    };
    let mut w = World::new(g, shard);
    let mut last = None;
    for _ in 0..=d.blocks {
        match w.seal(None) {
            O::Ok(s) => last = Some(s),
            _ => return None,
        }
    }
    last
}

fn votes(d: &Dist, epoch: u64, key: Option<u8>) -> u128 {
    d.stakes
        .iter()
        .enumerate()
        .filter(|(_, (k, _, s, e))| *s <= epoch && epoch < *e && key.map_or(true, |kk| kk as usize % NKEYS == *k as usize % NKEYS))
        .map(|(i, _)| amount(d, i))
        .sum()
}

pub fn check_dist(d: &Dist, st: &mut Stats, shard: usize) -> Check {
    let s = match build(d, shard) {
        Some(s) => s,
        None => {
            st.exclude("state-could-not-be-built");
            return Ok(());
        }
    };
    if d.shift > 0 {
        st.class("shifted-distribution");
    }
    let hh = s.header().hash();
    let epoch = s.header().height.0 / 200_000;
    let total = votes(d, epoch, None);
    let keys: Vec<u8> = {
        let mut k: Vec<u8> = d.stakes.iter().map(|x| (x.0 as usize % NKEYS) as u8).collect();
        k.sort();
        k.dedup();
        k
    };
    let mut results: BTreeMap<u8, bool> = BTreeMap::new();
    let outsiders: Vec<(tmelcrypt::Ed25519PK, Vec<u8>)> = if d.sig_class == 0 { (0..12).map(|j| { let (opk, osk) = crate::util::key(1000 + j); (opk, osk.sign(&hh.0)) }).collect() } else { vec![] };
    for &sub in d.subsets.iter() {
        st.eval();
        let signers: Vec<u8> = keys.iter().copied().filter(|k| sub & (1 << k) != 0).collect();
        let mut proof: ConsensusProof = BTreeMap::new();
        let mut any_invalid = false;
        for (i, k) in signers.iter().enumerate() {
            let mut sig = sk(*k as usize).sign(&hh.0);
            let bad = d.sig_class != 0 && i == 0; // the first signer's signature is the tampered one
            if bad {
                match d.sig_class {
                    1 => sig[7] ^= 0x40,
                    2 => sig = sk(((*k as usize) + 1) % NKEYS).sign(&hh.0),
                    3 => sig = sk(*k as usize).sign(&tmelcrypt::hash_single(b"another header").0),
                    _ => sig = sig[..63].to_vec(),
                }
                any_invalid = true;
            }
            proof.insert(pk(*k as usize), sig.into());
        }
        if d.sig_class == 3 && !signers.is_empty() {
            // an extra, foreign key with a valid signature of its own adds no votes
            proof.insert(pk(NKEYS - 1), sk(NKEYS - 1).sign(&hh.0).into());
        }
        let present: u128 = signers.iter().map(|k| votes(d, epoch, Some(*k))).sum();
        let got = match catch(|| s.confirm(proof.clone()).is_some()) {
            Ok(g) => g,
            Err(p) => viol!("confirm-panics", "confirm panicked: {}", p.message),
        };
        let desc = || format!("stakes {:?} epoch {} signers {:?} (present {} of {}) signature class {}", d.stakes, epoch, signers, present, total, d.sig_class);
        if total == 0 {
            st.class("no-active-voting-power");
            continue;
        }
        if any_invalid {
            if got {
                viol!("confirmed-with-invalid-signature", "a proof containing an invalid signature confirmed the state: {}", desc());
            }
            st.class("tampered-proof");
        } else {
            let (p3, t2) = (num::BigUint::from(present) * 3u32, num::BigUint::from(total) * 2u32);
            if total > u128::MAX / 3 {
                st.class("voting-power-above-2^126");
            }
            if p3 > t2 && !got {
                viol!(
                    if present == total { "all-stakers-do-not-confirm" } else { "supermajority-does-not-confirm" },
                    "signers hold more than 2/3 but the state is not confirmed: {}",
                    desc()
                );
            }
            if p3 < t2 && got {
                viol!(
                    if present == 0 { "empty-or-powerless-proof-confirms" } else { "minority-confirms" },
                    "signers hold less than 2/3 but the state is confirmed: {}",
                    desc()
                );
            }
            if d.sig_class == 0 {
                results.insert(sub, got);
                // valid signatures of keys that hold no stake add no votes and take none away: the verdict of the
                // proof extended by 1, (number of stakes + 1) and 12 outsiders is judged by the same rule, and a
                // confirming proof must stay confirming
                for n_out in [1usize, (d.stakes.len() + 1).min(12), 12] {
                    let mut wider = proof.clone();
                    for (opk, osig) in outsiders.iter().take(n_out) {
                        wider.insert(*opk, osig.clone().into());
                    }
                    st.eval();
                    let got_w = match catch(|| s.confirm(wider.clone()).is_some()) {
                        Ok(g) => g,
                        Err(p) => viol!("confirm-panics", "confirm panicked: {}", p.message),
                    };
                    if (p3 > t2 && !got_w) || (got && !got_w) {
                        viol!("valid-signatures-of-outsiders-unconfirm", "a proof that confirms (or whose signers hold more than 2/3) stops confirming when {} valid signatures of keys without stake are added: {}", n_out, desc());
                    }
                    if p3 < t2 && got_w {
                        viol!("minority-confirms-with-outsiders", "signers holding less than 2/3 confirm the state once {} valid signatures of keys without stake are added: {}", n_out, desc());
                    }
                    st.class("proof-extended-by-outsiders");
                }
            }
        }
        if !signers.is_empty() && signers.len() < keys.len() {
            st.nontrivial(h64(format!("{:?}|{}|{}", d.stakes, sub, d.sig_class).as_bytes()));
        }
        st.class(if got { "confirmed" } else { "not-confirmed" });
    }
    // a proof made of valid signatures over THIS state's header must not confirm a sibling state (same network,
    // height and stakers, other contents) - also not after it has just confirmed this one
    if d.sig_class == 0 && total > 0 {
        if let Some(sib) = build_with(d, shard, 77) {
            if sib.header().hash() != hh && sib.header().height == s.header().height {
                let mut proof: ConsensusProof = BTreeMap::new();
                for k in keys.iter() {
                    proof.insert(pk(*k as usize), sk(*k as usize).sign(&hh.0).into());
                }
                let first = catch(|| s.confirm(proof.clone()).is_some()).unwrap_or(false);
                let on_sibling = catch(|| sib.confirm(proof.clone()).is_some()).unwrap_or(false);
                st.eval();
                if on_sibling {
                    viol!(
                        "proof-for-another-state-confirms",
                        "a proof signed by all stakers over one header (which it {}) also confirms a different state at the same height: stakes {:?}",
                        if first { "confirms" } else { "does not confirm" },
                        d.stakes
                    );
                }
                st.class("sibling-state-not-confirmed-by-foreign-proof");
            }
        }
    }
    // monotonicity over the subset lattice (valid signatures only)
    for (a, ga) in results.iter() {
        for (b, gb) in results.iter() {
            if a & b == *a && *ga && !*gb {
                viol!("adding-a-signature-unconfirms", "signer set {:#b} confirms but its superset {:#b} does not: stakes {:?}", a, b, d.stakes);
            }
        }
    }
    Ok(())
}

pub fn run(ctx: &Ctx) -> (Outcome, String, Option<bool>) {
    let weights = [1u64, 2, 3, 5, 10];
    let max_stakers = if ctx.thorough() { 5 } else { 4 };
    let mut dists = vec![];
    // exhaustive: n stakers with distinct keys, every weight vector, every subset
    for n in 1..=max_stakers {
        let total = weights.len().pow(n as u32);
        for code in 0..total {
            let mut c = code;
            let mut stakes = vec![];
            for k in 0..n {
                stakes.push((k as u8, weights[c % weights.len()], 0u64, 10u64));
                c /= weights.len();
            }
            let subsets: Vec<u8> = (0..(1u16 << n)).map(|x| x as u8).collect();
            dists.push(Dist { stakes, subsets, sig_class: 0, blocks: 0, shift: 0, adds: vec![] });
        }
    }
    // shares just above two thirds (69/103, 667/1000, ...): three stakers (k+1, k, k) with the first two signing,
    // and totals around multiples of 3
    for k in [34u64, 35, 100, 333, 334, 1000, 33_333, 1_000_000, 1_000_000_000_000] {
        for (a, b, c) in [(k + 1, k, k), (k, k, k), (k + 1, k + 1, k), (2 * k + 1, k, 0), (2 * k, k, 0), (2 * k + 1, k + 1, 0)] {
            let mut stakes = vec![(0u8, a, 0u64, 10u64), (1, b, 0, 10)];
            if c > 0 {
                stakes.push((2, c, 0, 10));
            }
            dists.push(Dist { stakes: stakes.clone(), subsets: (0..8u8).collect(), sig_class: 0, blocks: 0, shift: 0, adds: vec![] });
            // the same shapes at magnitudes where 3 * votes no longer fits 128 bits (total kept below 2^128), with
            // every residue of the total mod 3
            if k <= 1000 {
                for shift in [100u8, 115, 116, 117] {
                    let top = stakes.iter().map(|x| x.1).sum::<u64>();
                    if ((top as u128 + 1) << shift) >> shift != top as u128 + 1 || (top as u128 + 1) << shift > u128::MAX / 2 + (u128::MAX / 4) {
                        continue;
                    }
                    for adds in [vec![], vec![1u8, 1], vec![1, 0], vec![0, 1], vec![2, 1, 1]] {
                        dists.push(Dist { stakes: stakes.clone(), subsets: (0..8u8).collect(), sig_class: 0, blocks: 0, shift, adds });
                    }
                }
            }
        }
    }
    let n_exh = dists.len();
    let mut out = run_enumeration(ctx, "exhaustive-distributions", dists, |d, st, shard| {
        let r = check_dist(d, st, shard);
        if st.want_sample() {
            st.sample(|| json!({"stakes": d.stakes, "subsets": d.subsets.len(), "sig_class": d.sig_class}));
        }
        r
    });
    out.stats.classes.insert("exhaustive-distributions".into(), n_exh as u64);
    // sampled: several stakes per key, stakes outside the epoch, tampered signatures
    let o = run_sharded(
        ctx,
        "sampled-distributions",
        ctx.scale(4000, 40000),
        || {
            (
                proptest::collection::vec((0u8..5, prop_oneof![Just(1u64), Just(2), Just(3), Just(5), Just(10), 1u64..1000], 0u64..2, 0u64..4), 1..7),
                proptest::collection::vec(0u8..32, 1..10),
                0u8..5,
                0u8..2,
            )
                .prop_map(|(stakes, subsets, sig_class, blocks)| { let shift = if stakes.len() <= 3 && stakes.iter().all(|x| x.1 <= 1000) && sig_class == 0 && subsets.len() % 3 == 0 { 116 } else { 0 }; let adds = if shift > 0 { subsets.iter().take(3).map(|x| x % 3).collect() } else { vec![] }; Dist { stakes, subsets, sig_class, blocks, shift, adds } })
        },
        |d, st, shard| check_dist(d, st, shard),
    );
    out.absorb(o);
    let rule = format!("Enumerated: every assignment of weights {{1,2,3,5,10}} to 1-{} stakers with distinct keys, active from epoch 0, x every subset of signers with valid signatures (exhaustive: true refers to this sub-space). Also enumerated: 54 near-threshold distributions ((k+1,k,k), (2k+1,k), ... for k from 34 to 10^12) x all signer subsets, the smaller ones repeated at magnitudes 2^100..2^127 (weights shifted left by 100-117 bits plus 0-2, total below 2^128, every residue mod 3) where 3 x votes no longer fits 128 bits. Sampled: 1-6 stakes over 5 keys (several per key), weights to 1000, stakes starting later or already ended, signer subsets, and signatures that are valid / bit-flipped / made by another key / over another header / truncated, plus a foreign signer. Oracle: an invalid signature => not confirmed; all valid and 3*present > 2*total => confirmed; 3*present < 2*total => not confirmed (equality unspecified); over the valid-signature subsets, adding a signer never turns confirmed into not confirmed. Every all-valid proof is also extended by 1, (number of stakes + 1) and 12 valid signatures of keys that hold no stake: same verdict rule, and a confirming proof must keep confirming. For every all-valid case a sibling state (same network, height and stakers, different fee pool) must not be confirmed by the proof that just confirmed the first state. Non-trivial = proper non-empty signer subset with total > 0; distinct by (stakes, subset, signature class).", max_stakers);
    (out, rule, Some(true))
}

pub fn replay(case: &serde_json::Value) -> Check {
    let d: Dist = serde_json::from_value(case.clone()).map_err(|e| Violation::new("replay-format", e.to_string()))?;
    let mut st = Stats::default();
    check_dist(&d, &mut st, 200)
}
