//! C06 — a block is accepted exactly when it is the correct successor.
use std::collections::HashSet;

use melstructs::{Block, BlockHeight, CoinData, CoinValue, Denom, NetID, ProposerAction, Transaction, TxKind};
use tmelcrypt::HashVal;

use crate::evidence::{Check, Stats};
use crate::plan::{has_dependency, Monitor, Profile, SealObs};
use crate::refstf;
use crate::runner::{Ctx, Outcome};
use crate::util::{catch, h64};
use crate::viol;
use crate::world::{CovSpec, World};

#[derive(Default)]
pub struct C06;

fn rebuilt(b: &Block, rot: usize) -> Block {
    // a fresh HashSet (fresh RandomState), filled in a rotated order
    let mut v: Vec<Transaction> = b.transactions.iter().cloned().collect();
    if !v.is_empty() {
        let r = rot % v.len();
        v.rotate_left(r);
    }
    let mut hs = HashSet::new();
    for t in v {
        hs.insert(t);
    }
    Block { header: b.header, transactions: hs, proposer_action: b.proposer_action }
}

fn flip(h: HashVal) -> HashVal {
    let mut x = h.0;
    x[5] ^= 0x10;
    HashVal(x)
}

impl Monitor for C06 {
    fn on_seal(&mut self, w: &World, ob: &SealObs, st: &mut Stats) -> Check {
        let parent = match ob.parent {
            Some(p) => p,
            None => return Ok(()),
        };
        if parent.header().height.0 + 1 != ob.sealed.header().height.0 {
            // teleported lineage: the recorded parent is not the state this block extends
            return Ok(());
        }
        st.eval();
        let blk = ob.sealed.to_block();
        let pool = w.pool.clone();
        // honest block: accepted, with exactly that header, whatever the iteration order of the set
        for rot in 0..4 {
            let b = rebuilt(&blk, rot);
            match catch(|| pool.install(|| parent.apply_block(&b))) {
                Ok(Ok(s)) => {
                    if s.header() != blk.header {
                        viol!("honest-block-wrong-header", "apply_block returned a state whose header differs from the block's header (block {})", blk.header.height);
                    }
                }
                Ok(Err(e)) => viol!(
                    if has_dependency(&blk.transactions.iter().cloned().collect::<Vec<_>>()) { "honest-block-with-dependency-rejected" } else { "honest-block-rejected" },
                    "block {} with {} transaction(s), built by apply_tx_batch + seal, is rejected by its parent: {:?} (set order variant {})",
                    blk.header.height,
                    blk.transactions.len(),
                    e,
                    rot
                ),
                Err(p) => {
                    st.exclude("apply_block-panicked");
                    let _ = p;
                    return Ok(());
                }
            }
        }
        // single mutations: all rejected
        let mut muts: Vec<(&'static str, Block)> = vec![];
        macro_rules! hm {
            ($name:expr, $f:expr) => {{
                let mut b = blk.clone();
                #[allow(clippy::redundant_closure_call)]
                ($f)(&mut b);
                muts.push(($name, b));
            }};
        }
        hm!("header.network", |b: &mut Block| b.header.network = if b.header.network == NetID::Custom03 { NetID::Custom04 } else { NetID::Custom03 });
        hm!("header.previous", |b: &mut Block| b.header.previous = flip(b.header.previous));
        hm!("header.height+1", |b: &mut Block| b.header.height = BlockHeight(b.header.height.0 + 1));
        hm!("header.height-1", |b: &mut Block| b.header.height = BlockHeight(b.header.height.0.wrapping_sub(1)));
        hm!("header.history_hash", |b: &mut Block| b.header.history_hash = flip(b.header.history_hash));
        hm!("header.coins_hash", |b: &mut Block| b.header.coins_hash = flip(b.header.coins_hash));
        hm!("header.transactions_hash", |b: &mut Block| b.header.transactions_hash = flip(b.header.transactions_hash));
        hm!("header.fee_pool+1", |b: &mut Block| b.header.fee_pool = CoinValue(b.header.fee_pool.0 + 1));
        hm!("header.fee_pool-1", |b: &mut Block| b.header.fee_pool = CoinValue(b.header.fee_pool.0.wrapping_sub(1)));
        hm!("header.fee_multiplier+1", |b: &mut Block| b.header.fee_multiplier = b.header.fee_multiplier.wrapping_add(1));
        hm!("header.dosc_speed+1", |b: &mut Block| b.header.dosc_speed = b.header.dosc_speed.wrapping_add(1));
        hm!("header.pools_hash", |b: &mut Block| b.header.pools_hash = flip(b.header.pools_hash));
        hm!("header.stakes_hash", |b: &mut Block| b.header.stakes_hash = flip(b.header.stakes_hash));
        // transactions
        if let Some(t) = blk.transactions.iter().next().cloned() {
            hm!("remove-transaction", |b: &mut Block| {
                b.transactions.remove(&t);
            });
            let mut t2 = t.clone();
            t2.data = [t2.data.to_vec(), vec![1]].concat().into();
            let t0 = t.clone();
            hm!("alter-transaction-data", |b: &mut Block| {
                b.transactions.remove(&t0);
                b.transactions.insert(t2.clone());
            });
            if !t.sigs.is_empty() && !t.sigs[0].is_empty() {
                let mut t3 = t.clone();
                let mut s0 = t3.sigs[0].to_vec();
                s0[3] ^= 1;
                t3.sigs[0] = s0.into();
                let t0 = t.clone();
                hm!("alter-transaction-signature", |b: &mut Block| {
                    b.transactions.remove(&t0);
                    b.transactions.insert(t3.clone());
                });
            }
        }
        // a re-signed copy of a transaction of the block (same body, one more signature): a second element of
        // the set that spends the same coins
        if let Some(t) = blk.transactions.iter().find(|t| !t.inputs.is_empty()).cloned() {
            let mut copy = t.clone();
            copy.sigs.push(vec![0u8; 64].into());
            hm!("add-resigned-copy-of-a-transaction", |b: &mut Block| {
                b.transactions.insert(copy.clone());
            });
        }
        // an added transaction: a faucet (valid off mainnet: changes the state; invalid on mainnet)
        let mut extra = Transaction::new(TxKind::Faucet);
        extra.outputs.push(CoinData { covhash: CovSpec::True.hash(), value: CoinValue(7), denom: Denom::Mel, additional_data: Default::default() });
        extra.fee = CoinValue(1u128 << 60);
        extra.data = blk.header.height.0.to_le_bytes().to_vec().into();
        hm!("add-transaction", |b: &mut Block| {
            b.transactions.insert(extra.clone());
        });
        // proposer action
        match blk.proposer_action {
            Some(a) => {
                hm!("action-removed", |b: &mut Block| b.proposer_action = None);
                hm!("action-other-destination", |b: &mut Block| {
                    b.proposer_action = Some(ProposerAction { fee_multiplier_delta: a.fee_multiplier_delta, reward_dest: melstructs::Address(flip(a.reward_dest.0)) })
                });
                // another delta whose movement differs (an equal movement gives an equivalent block, not a mutation)
                let t901 = refstf::tips_at(ob.pre.net, ob.pre.height).t901;
                let m = ob.pre.fee_mult;
                let cur = refstf::next_multiplier(m, a.fee_multiplier_delta, t901);
                let other = (-128i16..=127).map(|d| d as i8).find(|d| refstf::next_multiplier(m, *d, t901) != cur);
                if let Some(d2) = other {
                    hm!("action-other-delta", |b: &mut Block| b.proposer_action = Some(ProposerAction { fee_multiplier_delta: d2, reward_dest: a.reward_dest }));
                }
            }
            None => {
                hm!("action-added", |b: &mut Block| b.proposer_action = Some(ProposerAction { fee_multiplier_delta: 0, reward_dest: CovSpec::True.hash() }));
            }
        }
        let n = muts.len();
        for (name, b) in muts {
            match catch(|| pool.install(|| parent.apply_block(&b))) {
                Ok(Ok(_)) => viol!(format!("mutated-block-accepted-{}", name), "block {} with mutation '{}' is accepted by its parent", blk.header.height, name),
                Ok(Err(_)) => {}
                Err(_) => st.exclude("apply_block-panicked-on-mutation"),
            }
        }
        st.class_n("block-mutations-rejected", n as u64);
        if blk.transactions.len() >= 2 {
            st.nontrivial(h64(&blk.header.hash().0));
            if has_dependency(&blk.transactions.iter().cloned().collect::<Vec<_>>()) {
                st.class("honest-block-with-intra-block-dependency");
            }
        }
        st.class(if blk.proposer_action.is_some() { "block-with-action" } else { "block-without-action" });
        Ok(())
    }
}

pub fn profile() -> Profile {
    let mut p = Profile::general();
    p.p_mut = 12;
    p.max_txs = 5;
    p.lead_blocks = 8;
    p
}

pub fn run(ctx: &Ctx) -> (Outcome, String, Option<bool>) {
    let mut p = profile();
    if ctx.thorough() {
        p.max_steps = 30;
        p.max_txs = 10;
    }
    let out = super::hist::run_histories(ctx, "histories", p, ctx.scale(500, 5000), C06::default);
    let rule = "Every block produced in generated histories (built honestly through apply_tx_batch in one or several batches + seal, all kinds of transactions, with and without proposer action, four network classes), and for each ~20 single mutations: each of the 11 header fields (+-1 or a flipped bit), a transaction removed / its data or a signature byte altered / a faucet added, the proposer action removed, added, sent elsewhere, or given another delta whose movement differs. Oracle: parent.apply_block(block) is Ok with header == block.header for the honest block under 4 rebuilt HashSets (fresh hash seeds, rotated insertion order), and Err for every mutation. Evaluations counts blocks; mutation checks are counted in classes. Non-trivial = honest block with >=2 transactions; distinct by block hash.".to_string();
    (out, rule, None)
}

pub fn replay(case: &serde_json::Value) -> Check {
    super::hist::replay_history(case, &profile(), C06::default())
}
