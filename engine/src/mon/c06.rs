//! C06 — a block is accepted exactly when it is the correct successor.
use std::collections::HashSet;

use melstructs::{Block, BlockHeight, CoinData, CoinValue, Denom, NetID, ProposerAction, Transaction, TxKind};
use tmelcrypt::HashVal;

use crate::evidence::{Check, Stats};
use crate::plan::{has_dependency, Monitor, Profile, SealObs};
use crate::refstf;
use crate::runner::{Ctx, Outcome};
use crate::util::{catch, h64};
use crate::viol;
use crate::world::{CovSpec, World};

#[derive(Default)]
pub struct C06;

fn rebuilt(b: &Block, rot: usize) -> Block {
    // a fresh HashSet (fresh RandomState), filled in a rotated order
    let mut v: Vec<Transaction> = b.transactions.iter().cloned().collect();
    if !v.is_empty() {
        let r = rot % v.len();
        v.rotate_left(r);
    }
    let mut hs = HashSet::new();
    for t in v {
        hs.insert(t);
    }
    Block { header: b.header, transactions: hs, proposer_action: b.proposer_action }
}

fn flip(h: HashVal) -> HashVal {
    let mut x = h.0;
    x[5] ^= 0x10;
    HashVal(x)
}

impl Monitor for C06 {
    fn on_seal(&mut self, w: &World, ob: &SealObs, st: &mut Stats) -> Check {
        let parent = match ob.parent {
            Some(p) => p,
            None => return Ok(()),
        };
        if parent.header().height.0 + 1 != ob.sealed.header().height.0 {
            // teleported lineage: the recorded parent is not the state this block extends
            return Ok(());
        }
        st.eval();
        let blk = ob.sealed.to_block();
        let pool = w.pool.clone();
        // honest block: accepted, with exactly that header, whatever the iteration order of the set
        for rot in 0..4 {
            let b = rebuilt(&blk, rot);
            match catch(|| pool.install(|| parent.apply_block(&b))) {
                Ok(Ok(s)) => {
                    if s.header() != blk.header {
                        viol!("honest-block-wrong-header", "apply_block returned a state whose header differs from the block's header (block {})", blk.header.height);
                    }
                }
                Ok(Err(e)) => viol!(
                    // known finding KF-GF-C06 (same root cause as C19's KF-GF): the historic mainnet faucet is exempt from
                    // de-duplication, a builder can apply it several times in one block, the block's set holds it once
                    if ob.txs_in_block > blk.transactions.len() && blk.transactions.iter().any(|t| t.hash_nosigs() == crate::plan::grandfathered_faucet().hash_nosigs()) {
                        "honest-block-rejected-historic-faucet-applied-more-than-once"
                    } else if has_dependency(&blk.transactions.iter().cloned().collect::<Vec<_>>()) {
                        "honest-block-with-dependency-rejected"
                    } else {
                        "honest-block-rejected"
                    },
                    "block {} with {} transaction(s), built by apply_tx_batch + seal, is rejected by its parent: {:?} (set order variant {})",
                    blk.header.height,
                    blk.transactions.len(),
                    e,
                    rot
                ),
                Err(p) => {
                    st.exclude("apply_block-panicked");
                    let _ = p;
                    return Ok(());
                }
            }
        }
        // single mutations: all rejected
        let mut muts: Vec<(&'static str, Block)> = vec![];
        macro_rules! hm {
            ($name:expr, $f:expr) => {{
                let mut b = blk.clone();
                #[allow(clippy::redundant_closure_call)]
                ($f)(&mut b);
                muts.push(($name, b));
            }};
        }
        hm!("header.network", |b: &mut Block| b.header.network = if b.header.network == NetID::Custom03 { NetID::Custom04 } else { NetID::Custom03 });
        hm!("header.previous", |b: &mut Block| b.header.previous = flip(b.header.previous));
        hm!("header.height+1", |b: &mut Block| b.header.height = BlockHeight(b.header.height.0 + 1));
        hm!("header.height-1", |b: &mut Block| b.header.height = BlockHeight(b.header.height.0.wrapping_sub(1)));
        hm!("header.history_hash", |b: &mut Block| b.header.history_hash = flip(b.header.history_hash));
        hm!("header.coins_hash", |b: &mut Block| b.header.coins_hash = flip(b.header.coins_hash));
        hm!("header.transactions_hash", |b: &mut Block| b.header.transactions_hash = flip(b.header.transactions_hash));
        hm!("header.fee_pool+1", |b: &mut Block| b.header.fee_pool = CoinValue(b.header.fee_pool.0 + 1));
        hm!("header.fee_pool-1", |b: &mut Block| b.header.fee_pool = CoinValue(b.header.fee_pool.0.wrapping_sub(1)));
        hm!("header.fee_multiplier+1", |b: &mut Block| b.header.fee_multiplier = b.header.fee_multiplier.wrapping_add(1));
        hm!("header.dosc_speed+1", |b: &mut Block| b.header.dosc_speed = b.header.dosc_speed.wrapping_add(1));
        hm!("header.pools_hash", |b: &mut Block| b.header.pools_hash = flip(b.header.pools_hash));
        hm!("header.stakes_hash", |b: &mut Block| b.header.stakes_hash = flip(b.header.stakes_hash));
        // transactions
        if let Some(t) = blk.transactions.iter().next().cloned() {
            hm!("remove-transaction", |b: &mut Block| {
                b.transactions.remove(&t);
            });
            let mut t2 = t.clone();
            t2.data = [t2.data.to_vec(), vec![1]].concat().into();
            let t0 = t.clone();
            hm!("alter-transaction-data", |b: &mut Block| {
                b.transactions.remove(&t0);
                b.transactions.insert(t2.clone());
            });
            if !t.sigs.is_empty() && !t.sigs[0].is_empty() {
                let mut t3 = t.clone();
                let mut s0 = t3.sigs[0].to_vec();
                s0[3] ^= 1;
                t3.sigs[0] = s0.into();
                let t0 = t.clone();
                hm!("alter-transaction-signature", |b: &mut Block| {
                    b.transactions.remove(&t0);
                    b.transactions.insert(t3.clone());
                });
            }
        }
        // a re-signed copy of a transaction of the block (same body, one more signature): a second element of
        // the set that spends the same coins
        if let Some(t) = blk.transactions.iter().find(|t| !t.inputs.is_empty()).cloned() {
            let mut copy = t.clone();
            copy.sigs.push(vec![0u8; 64].into());
            hm!("add-resigned-copy-of-a-transaction", |b: &mut Block| {
                b.transactions.insert(copy.clone());
            });
        }
        // an added transaction: a faucet (valid off mainnet: changes the state; invalid on mainnet)
        let mut extra = Transaction::new(TxKind::Faucet);
        extra.outputs.push(CoinData { covhash: CovSpec::True.hash(), value: CoinValue(7), denom: Denom::Mel, additional_data: Default::default() });
        extra.fee = CoinValue(1u128 << 60);
        extra.data = blk.header.height.0.to_le_bytes().to_vec().into();
        hm!("add-transaction", |b: &mut Block| {
            b.transactions.insert(extra.clone());
        });
        // proposer action
        match blk.proposer_action {
            Some(a) => {
                hm!("action-removed", |b: &mut Block| b.proposer_action = None);
                hm!("action-other-destination", |b: &mut Block| {
                    b.proposer_action = Some(ProposerAction { fee_multiplier_delta: a.fee_multiplier_delta, reward_dest: melstructs::Address(flip(a.reward_dest.0)) })
                });
                // another delta whose movement differs (an equal movement gives an equivalent block, not a mutation)
                let t901 = refstf::tips_at(ob.pre.net, ob.pre.height).t901;
                let m = ob.pre.fee_mult;
                let cur = refstf::next_multiplier(m, a.fee_multiplier_delta, t901);
                let other = (-128i16..=127).map(|d| d as i8).find(|d| refstf::next_multiplier(m, *d, t901) != cur);
                if let Some(d2) = other {
                    hm!("action-other-delta", |b: &mut Block| b.proposer_action = Some(ProposerAction { fee_multiplier_delta: d2, reward_dest: a.reward_dest }));
                }
            }
            None => {
                hm!("action-added", |b: &mut Block| b.proposer_action = Some(ProposerAction { fee_multiplier_delta: 0, reward_dest: CovSpec::True.hash() }));
            }
        }
        let n = muts.len();
        for (name, b) in muts {
            match catch(|| pool.install(|| parent.apply_block(&b))) {
                Ok(Ok(_)) => viol!(format!("mutated-block-accepted-{}", name), "block {} with mutation '{}' is accepted by its parent", blk.header.height, name),
                Ok(Err(_)) => {}
                Err(_) => st.exclude("apply_block-panicked-on-mutation"),
            }
        }
        st.class_n("block-mutations-rejected", n as u64);
        if blk.transactions.len() >= 2 {
            st.nontrivial(h64(&blk.header.hash().0));
            if has_dependency(&blk.transactions.iter().cloned().collect::<Vec<_>>()) {
                st.class("honest-block-with-intra-block-dependency");
            }
        }
        st.class(if blk.proposer_action.is_some() { "block-with-action" } else { "block-without-action" });
        Ok(())
    }
}

pub fn profile() -> Profile {
    let mut p = Profile::general();
    p.p_mut = 12;
    p.max_txs = 5;
    p.lead_blocks = 8;
    p.prefer_stake_change = true;
    // the historic mainnet faucet, exempt from de-duplication, can be applied again and again (rewriting the same coin)
    p.grandfathered_faucet = true;
    p
}

/// Big honest blocks: one block of 150-420 transactions - a fan-out, one spender per fanned-out coin, and chains of
/// spenders hanging off some of them - built in batches, sealed, and offered to the parent under four differently
/// ordered transaction sets. Sizes straddle 256 (any internal chunking or 8-bit count would show).
#[derive(Clone, Debug, serde::Serialize, serde::Deserialize)]
pub struct BigBlock {
    pub fan: u8,
    pub spenders: u8,
    pub chains: Vec<(u8, u8)>,
    pub batches: u8,
    pub action: Option<(i8, u8)>,
    pub net: u8,
}

pub fn arb_big_block() -> impl proptest::strategy::Strategy<Value = BigBlock> {
    use proptest::prelude::*;
    (100u8..=254, any::<u8>(), proptest::collection::vec((any::<u8>(), 1u8..60), 1..5), 1u8..4, proptest::option::of((any::<i8>(), any::<u8>())), any::<u8>())
        .prop_map(|(fan, spenders, chains, batches, action, net)| BigBlock { fan, spenders, chains, batches, action, net })
}

pub fn check_big_block(c: &BigBlock, st: &mut Stats, shard: usize) -> Check {
    use crate::world::{CovSpec, GenesisSpec, Outcome as O};
    use melstructs::{CoinData, CoinID, CoinValue, Denom, NetID, Transaction, TxKind};
    st.eval();
    let t = CovSpec::True;
    let out = |v: u128| CoinData { covhash: t.hash(), value: CoinValue(v), denom: Denom::Mel, additional_data: Default::default() };
    let net = [NetID::Custom02, NetID::Custom08, NetID::Testnet, NetID::Mainnet][c.net as usize % 4];
    let g = GenesisSpec { net, init: out(1 << 90), init_cov: t.clone(), fee_pool: 0, fee_mult: 100, stakes: vec![] };
    let mut w = World::new(g, shard);
    let parent = match w.seal(None) {
        O::Ok(s) => s,
        _ => return Ok(()),
    };
    let fee = 1u128 << 30;
    let unit = 1u128 << 50;
    let fan = c.fan as usize;
    let mut txs: Vec<Transaction> = vec![];
    let mut f = Transaction::new(TxKind::Normal);
    f.inputs = vec![CoinID::zero_zero()];
    f.covenants = vec![t.bytes().into()];
    for _ in 0..fan {
        f.outputs.push(out(unit));
    }
    f.outputs.push(out((1u128 << 90) - unit * fan as u128 - fee));
    f.fee = CoinValue(fee);
    let fh = f.hash_nosigs();
    txs.push(f);
    let spend = |coin: CoinID, v: u128, tag: u32| -> Transaction {
        let mut s = Transaction::new(TxKind::Normal);
        s.inputs = vec![coin];
        s.covenants = vec![t.bytes().into()];
        s.outputs.push(out(v - fee));
        s.fee = CoinValue(fee);
        s.data = tag.to_le_bytes().to_vec().into();
        s
    };
    // one spender per fanned-out coin (all of them, or all but a few)
    let n_sp = fan - (c.spenders as usize % 8).min(fan);
    let mut tips: Vec<(CoinID, u128)> = vec![];
    for i in 0..n_sp {
        let s = spend(CoinID::new(fh, i as u8), unit, i as u32);
        tips.push((CoinID::new(s.hash_nosigs(), 0), unit - fee));
        txs.push(s);
    }
    // chains hanging off some spenders
    let mut tag = 10_000u32;
    for (at, len) in c.chains.iter() {
        if tips.is_empty() {
            break;
        }
        let i = *at as usize % tips.len();
        for _ in 0..*len {
            let (coin, v) = tips[i];
            let s = spend(coin, v, tag);
            tag += 1;
            tips[i] = (CoinID::new(s.hash_nosigs(), 0), v - fee);
            txs.push(s);
        }
    }
    // built in 1-3 batches, dependants possibly before their parents inside a batch
    let nb = c.batches.max(1) as usize;
    let per = (txs.len() + nb - 1) / nb;
    for chunk in txs.chunks(per) {
        let mut b = chunk.to_vec();
        if c.spenders % 2 == 1 {
            b.reverse();
        }
        match w.apply_batch(&b) {
            O::Ok(()) => {}
            O::Rejected(e) => viol!("honest-big-batch-rejected", "a batch of {} honest transactions (block of {}) is rejected: {}", b.len(), txs.len(), e),
            O::Panicked(_) => {
                st.exclude("panicked");
                return Ok(());
            }
        }
    }
    let sealed = match w.seal(crate::plan::mk_action(c.action)) {
        O::Ok(s) => s,
        _ => return Ok(()),
    };
    let blk = sealed.to_block();
    st.class(if blk.transactions.len() > 256 { "big-block-above-256-transactions" } else { "big-block-up-to-256-transactions" });
    let pool = w.pool.clone();
    for rot in 0..4 {
        let b = rebuilt(&blk, rot);
        match catch(|| pool.install(|| parent.apply_block(&b))) {
            Ok(Ok(s)) => {
                if s.header() != blk.header {
                    viol!("honest-block-wrong-header", "apply_block of a block of {} transactions returned another header than the builder's", blk.transactions.len());
                }
            }
            Ok(Err(e)) => viol!(
                "honest-big-block-rejected",
                "a block of {} transactions ({} fanned out, {} spenders, chains {:?}), built by apply_tx_batch + seal, is rejected by its parent: {:?} (set order variant {})",
                blk.transactions.len(),
                fan,
                n_sp,
                c.chains,
                e,
                rot
            ),
            Err(_) => {
                st.exclude("apply_block-panicked");
                return Ok(());
            }
        }
    }
    st.nontrivial(crate::util::h64(&blk.header.hash().0));
    Ok(())
}

pub fn run(ctx: &Ctx) -> (Outcome, String, Option<bool>) {
    let mut p = profile();
    if ctx.thorough() {
        p.max_steps = 30;
        p.max_txs = 10;
    }
    let mut out = super::hist::run_histories(ctx, "histories", p, ctx.scale(500, 5000), C06::default);
    out.absorb(crate::runner::run_sharded(ctx, "big-honest-blocks", ctx.scale(6, 60), arb_big_block, |c, st, shard| check_big_block(c, st, shard)));
    out.absorb(super::hist::run_sampled_heights(ctx, &profile(), ctx.scale(150, 1500), C06::default));
    let rule = "Also: the first phase's kind of histories on mainnet/testnet (85%) started at a height sampled anywhere below 2 000 000 (TIP-906 barrier crossed honestly first). Second phase: honest blocks of 150-420 transactions (a fan-out, one spender per coin, chains of up to 59 dependants), built in 1-3 batches with dependants before or after their parents, re-validated by the parent under 4 rebuilt sets. First phase: every block produced in generated histories (built honestly through apply_tx_batch in one or several batches + seal, all kinds of transactions, with and without proposer action, four network classes), and for each ~20 single mutations: each of the 11 header fields (+-1 or a flipped bit), a transaction removed / its data or a signature byte altered / a faucet added, the proposer action removed, added, sent elsewhere, or given another delta whose movement differs. Oracle: parent.apply_block(block) is Ok with header == block.header for the honest block under 4 rebuilt HashSets (fresh hash seeds, rotated insertion order), and Err for every mutation. Evaluations counts blocks; mutation checks are counted in classes. Non-trivial = honest block with >=2 transactions; distinct by block hash.".to_string();
    (out, rule, None)
}

pub fn replay(case: &serde_json::Value) -> Check {
    if case.get("fan").is_some() {
        let c: BigBlock = serde_json::from_value(case.clone()).map_err(|e| crate::evidence::Violation::new("replay-format", e.to_string()))?;
        return check_big_block(&c, &mut Stats::default(), 200);
    }
    super::hist::replay_any(case, &profile(), &profile(), C06::default())
}
