//! Shared runner for history-based properties: generate plans, run them with a monitor, collect evidence.
use serde_json::json;

use crate::evidence::{Check, Stats};
use crate::plan::{arb_plan, run_plan, Monitor, Plan, Profile, Step};
use crate::runner::{run_sharded, Ctx, Outcome};

pub fn plan_summary(p: &Plan) -> serde_json::Value {
    let mut batches = 0;
    let mut txs = 0;
    let mut seals = 0;
    let mut restarts = 0;
    for s in p.steps.iter() {
        match s {
            Step::Batch(t, _) => {
                batches += 1;
                txs += t.len()
            }
            Step::Seal(_) => seals += 1,
            Step::Restart => restarts += 1,
            Step::Empty(n) => seals += *n as usize,
            Step::Teleport(_) | Step::Admit(_) | Step::Include(_) => {}
        }
    }
    json!({"net_sel": p.cfg.net, "steps": p.steps.len(), "batches": batches, "planned_txs": txs, "seals": seals, "restarts": restarts})
}

pub fn run_histories<M, F>(ctx: &Ctx, phase: &str, profile: Profile, cases: u32, mk: F) -> Outcome
where
    M: Monitor,
    F: Fn() -> M + Sync,
{
    let prof = profile.clone();
    run_sharded(
        ctx,
        phase,
        cases,
        move || arb_plan(&prof),
        |plan: &Plan, st: &mut Stats, shard| {
            st.eval();
            let mut m = mk();
            let r = run_plan(plan, &profile, &mut m, st, shard);
            r
        },
    )
}

pub fn replay_history<M: Monitor>(case: &serde_json::Value, profile: &Profile, mut m: M) -> Check {
    let plan: Plan = serde_json::from_value(case.clone()).map_err(|e| crate::evidence::Violation::new("replay-format", e.to_string()))?;
    let mut st = Stats::default();
    run_plan(&plan, profile, &mut m, &mut st, 200)
}

/// A plan of a check's second phase (interpreted under another profile than the first phase's): tagged, so that a
/// replay file tells which profile to use.
#[derive(Clone, Debug, serde::Serialize, serde::Deserialize)]
pub struct Phase2 {
    pub phase2: Plan,
}

/// Replays a plan under `p1`, or - if the case is tagged as a second-phase plan - under `p2`.
pub fn replay_two_phase<M: Monitor>(case: &serde_json::Value, p1: &Profile, p2: &Profile, m: M) -> Check {
    match case.get("phase2") {
        Some(inner) => replay_history(inner, p2, m),
        None => replay_history(case, p1, m),
    }
}
