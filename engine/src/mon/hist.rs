//! Shared runner for history-based properties: generate plans, run them with a monitor, collect evidence.
use serde_json::json;

use crate::evidence::{Check, Stats};
use crate::plan::{arb_plan, run_plan, Monitor, Plan, Profile, Step};
use crate::runner::{run_sharded, Ctx, Outcome};

pub fn plan_summary(p: &Plan) -> serde_json::Value {
    let mut batches = 0;
    let mut txs = 0;
    let mut seals = 0;
    let mut restarts = 0;
    for s in p.steps.iter() {
        match s {
            Step::Batch(t, _) => {
                batches += 1;
                txs += t.len()
            }
            Step::Seal(_) => seals += 1,
            Step::Restart => restarts += 1,
            Step::Empty(n) => seals += *n as usize,
            Step::Teleport(_) | Step::TeleportTo(_) | Step::Admit(_) | Step::Include(_) => {}
        }
    }
    json!({"net_sel": p.cfg.net, "steps": p.steps.len(), "batches": batches, "planned_txs": txs, "seals": seals, "restarts": restarts})
}

pub fn run_histories<M, F>(ctx: &Ctx, phase: &str, profile: Profile, cases: u32, mk: F) -> Outcome
where
    M: Monitor,
    F: Fn() -> M + Sync,
{
    let prof = profile.clone();
    run_sharded(
        ctx,
        phase,
        cases,
        move || arb_plan(&prof),
        |plan: &Plan, st: &mut Stats, shard| {
            st.eval();
            let mut m = mk();
            let r = run_plan(plan, &profile, &mut m, st, shard);
            r
        },
    )
}

pub fn replay_history<M: Monitor>(case: &serde_json::Value, profile: &Profile, mut m: M) -> Check {
    let plan: Plan = serde_json::from_value(case.clone()).map_err(|e| crate::evidence::Violation::new("replay-format", e.to_string()))?;
    let mut st = Stats::default();
    run_plan(&plan, profile, &mut m, &mut st, 200)
}

/// A plan of a check's second phase (interpreted under another profile than the first phase's): tagged, so that a
/// replay file tells which profile to use.
#[derive(Clone, Debug, serde::Serialize, serde::Deserialize)]
pub struct Phase2 {
    pub phase2: Plan,
}

/// Replays a plan under `p1`, or - if the case is tagged as a second-phase plan - under `p2`.
pub fn replay_two_phase<M: Monitor>(case: &serde_json::Value, p1: &Profile, p2: &Profile, m: M) -> Check {
    match case.get("phase2") {
        Some(inner) => replay_history(inner, p2, m),
        None => replay_history(case, p1, m),
    }
}

/// A generated plan that first travels to a height sampled anywhere below 2 000 000 (to the TIP-906 barrier first
/// where there is one, across it honestly, then the random jump), so that rules tied to a window of heights that is
/// not an activation height are met now and then.
pub fn arb_plan_at_random_height(p: &Profile) -> impl proptest::strategy::Strategy<Value = Plan> {
    use proptest::prelude::*;
    (arb_plan(p), any::<u32>(), any::<u32>(), any::<bool>()).prop_map(|(mut plan, h1, h2, twice)| {
        let mut pre = vec![Step::Seal(None), Step::Teleport(0), Step::Seal(None), Step::Seal(None), Step::TeleportTo(h1), Step::Seal(None)];
        if twice {
            pre.push(Step::TeleportTo(h2));
            pre.push(Step::Seal(None));
        }
        pre.extend(plan.steps.drain(..));
        plan.steps = pre;
        plan
    })
}

/// run_histories with another plan strategy; cases are tagged as second-phase plans (replay with `replay_two_phase`)
pub fn run_histories_with<M, F, S, MkS>(ctx: &Ctx, phase: &str, profile: Profile, cases: u32, mk_strategy: MkS, mk: F) -> Outcome
where
    M: Monitor,
    F: Fn() -> M + Sync,
    S: proptest::strategy::Strategy<Value = Plan>,
    MkS: Fn(&Profile) -> S + Sync,
{
    let prof = profile.clone();
    run_sharded(
        ctx,
        phase,
        cases,
        move || {
            use proptest::strategy::Strategy;
            mk_strategy(&prof).prop_map(|p| Phase2 { phase2: p })
        },
        |plan: &Phase2, st: &mut Stats, shard| {
            st.eval();
            let mut m = mk();
            run_plan(&plan.phase2, &profile, &mut m, st, shard)
        },
    )
}

/// A plan of the sampled-heights phase (mainnet/testnet-heavy profile, see `sampled_profile`).
#[derive(Clone, Debug, serde::Serialize, serde::Deserialize)]
pub struct Sampled {
    pub sampled: Plan,
}

/// The base profile turned towards the networks whose rules depend on the height, with height jumps enabled.
pub fn sampled_profile(base: &Profile) -> Profile {
    let mut p = base.clone();
    p.p_teleport = p.p_teleport.max(1);
    p.net_w = [8, 5, 40, 35, 3, 3, 2, 2, 2];
    p.max_steps = p.max_steps.min(10);
    p.warp = false;
    p.start_past_legacy = false;
    p.past_legacy_half = false;
    p.start_in_legacy_window = false;
    p
}

/// Histories that first travel to a height sampled anywhere below 2 000 000, judged by the same monitor.
pub fn run_sampled_heights<M, F>(ctx: &Ctx, base: &Profile, cases: u32, mk: F) -> Outcome
where
    M: Monitor,
    F: Fn() -> M + Sync,
{
    let profile = sampled_profile(base);
    let prof = profile.clone();
    run_sharded(
        ctx,
        "histories-at-sampled-heights",
        cases,
        move || {
            use proptest::strategy::Strategy;
            arb_plan_at_random_height(&prof).prop_map(|p| Sampled { sampled: p })
        },
        |plan: &Sampled, st: &mut Stats, shard| {
            st.eval();
            st.class("history-at-sampled-height");
            let mut m = mk();
            run_plan(&plan.sampled, &profile, &mut m, st, shard)
        },
    )
}

/// Replays a case of any phase: plain plan (first phase, `p1`), `phase2` (under `p2`), `sampled` (sampled-heights profile of `p1`).
pub fn replay_any<M: Monitor>(case: &serde_json::Value, p1: &Profile, p2: &Profile, m: M) -> Check {
    if let Some(inner) = case.get("sampled") {
        return replay_history(inner, &sampled_profile(p1), m);
    }
    replay_two_phase(case, p1, p2, m)
}
