//! C18 — ERG is minted only against valid sequential work, within the reward formula.
use melstructs::{CoinData, CoinID, CoinValue, Denom, NetID, Transaction, TxKind};
use proptest::prelude::*;
use serde_json::json;

use crate::evidence::{Check, Stats, Violation};
use crate::refstf::{self, RefCtx};
use crate::runner::{run_sharded, Ctx, Outcome};
use crate::util::h64;
use crate::viol;
use crate::world::{decode_view, CovSpec, GenesisSpec, Outcome as O, World};

#[derive(Clone, Debug, serde::Serialize, serde::Deserialize)]
pub struct Case {
    pub net: u8,
    pub age: u8,
    pub variant910: bool,
    pub difficulty: u8,
    pub amount: u8,
    pub corruption: u8,
    pub cparam: u16,
    pub second: Option<(u8, u8)>, // a second mint: (difficulty offset, amount class); odd amount class: in the same batch
    #[serde(default)]
    pub lead: u8, // empty blocks before the coin is created; bits 6-7: starting DOSC speed class (fabricated through from_block)
}

struct Legacy;
impl melpow::HashFunction for Legacy {
    fn hash(&self, b: &[u8], k: &[u8]) -> melpow::SVec<u8> {
        melpow::SVec::from_slice(blake3::keyed_hash(blake3::hash(k).as_bytes(), b).as_bytes())
    }
}
struct T910;
impl melpow::HashFunction for T910 {
    fn hash(&self, b: &[u8], k: &[u8]) -> melpow::SVec<u8> {
        let mut r = blake3::keyed_hash(blake3::hash(k).as_bytes(), b);
        for _ in 0..99 {
            r = blake3::hash(r.as_bytes());
        }
        melpow::SVec::from_slice(r.as_bytes())
    }
}

fn ages() -> [u64; 10] {
    [1, 2, 3, 7, 30, 98, 99, 100, 101, 140]
}

const CORRUPTIONS: [&str; 12] = [
    "none",
    "none",
    "none",
    "none",
    "label-bit-flip",
    "dropped-node",
    "difficulty+1",
    "difficulty-1",
    "proof-for-another-coin",
    "proof-for-another-height",
    "garbage-data",
    "fee-coin-first",
];

#[allow(clippy::too_many_arguments)]
fn mint_once(
    w: &mut World,
    st: &mut Stats,
    coin: CoinID,
    coin_height: u64,
    fee_coin: CoinID,
    fee_coin_value: u128,
    c: &Case,
    difficulty: u32,
    amount_class: u8,
    corruption: &str,
) -> Result<Option<(Transaction, bool)>, Violation> {
    let h = w.height();
    let hdr = match w.header_at(coin_height) {
        Some(x) => x,
        None => return Ok(None),
    };
    let seed_hdr = if corruption == "proof-for-another-height" { w.header_at(coin_height.saturating_sub(1).max(0)).filter(|x| *x != hdr).unwrap_or(hdr) } else { hdr };
    let puzzle_coin = if corruption == "proof-for-another-coin" { fee_coin } else { coin };
    let puzzle = tmelcrypt::hash_keyed(seed_hdr.hash(), &stdcode::serialize(&puzzle_coin).unwrap());
    let proof = if c.variant910 { melpow::Proof::generate(&puzzle, difficulty as usize, T910) } else { melpow::Proof::generate(&puzzle, difficulty as usize, Legacy) };
    let mut pbytes = proof.to_bytes();
    let claimed = match corruption {
        "difficulty+1" => difficulty + 1,
        "difficulty-1" => difficulty.saturating_sub(1).max(1),
        _ => difficulty,
    };
    match corruption {
        "label-bit-flip" => {
            let units = pbytes.len() / 40;
            if units > 0 {
                let u = c.cparam as usize % units;
                pbytes[u * 40 + 8 + (c.cparam as usize % 32)] ^= 1 << (c.cparam % 8);
            }
        }
        "dropped-node" => {
            let units = pbytes.len() / 40;
            if units > 0 {
                let u = c.cparam as usize % units;
                pbytes.drain(u * 40..u * 40 + 40);
            }
        }
        _ => {}
    }
    // reward bound, computed independently
    let prev = w.header_at(h - 1).map(|x| x.dosc_speed).unwrap_or(0);
    let age = h - coin_height;
    let bound = refstf::mint_bound(if c.variant910 { 100 } else { 1 }, claimed, age, prev, h).map(|x| x.1).unwrap_or(0);
    let erg = match amount_class % 6 {
        0 => bound,
        1 => bound.saturating_add(1),
        2 => bound.saturating_sub(1),
        3 => 0,
        4 => bound / 2,
        _ => bound.saturating_mul(2).saturating_add(7),
    };
    let erg = erg.min(refstf::MAX_COINVAL);
    let mut tx = Transaction::new(TxKind::DoscMint);
    tx.inputs = if corruption == "fee-coin-first" { vec![fee_coin, coin] } else { vec![coin, fee_coin] };
    tx.covenants = vec![CovSpec::True.bytes().into()];
    tx.data = if corruption == "garbage-data" {
        match c.cparam % 3 {
            0 => vec![1, 2, 3].into(),
            1 => stdcode::serialize(&(claimed, vec![7u8; 41])).unwrap().into(),
            _ => stdcode::serialize(&(claimed, Vec::<u8>::new())).unwrap().into(),
        }
    } else {
        // one mint in four carries its data in a valid but non-minimal serialisation
        let sel = if c.cparam % 4 == 3 { (c.cparam / 4) as u8 } else { 0 };
        let d = crate::plan::mint_data(claimed, &pbytes, sel);
        if d != stdcode::serialize(&(claimed, pbytes.clone())).unwrap() {
            st.class("mint-data-in-non-minimal-encoding");
        }
        d.into()
    };
    let fee = 1u128 << 30;
    tx.fee = CoinValue(fee);
    if c.cparam % 3 == 0 && erg >= 2 {
        // the same total split over two ERG outputs, large part first
        tx.outputs.push(CoinData { covhash: CovSpec::True.hash(), value: CoinValue(erg - 1), denom: Denom::Erg, additional_data: Default::default() });
        tx.outputs.push(CoinData { covhash: CovSpec::True.hash(), value: CoinValue(1), denom: Denom::Erg, additional_data: Default::default() });
        st.class("erg-split-over-two-outputs");
    } else {
        tx.outputs.push(CoinData { covhash: CovSpec::True.hash(), value: CoinValue(erg), denom: Denom::Erg, additional_data: Default::default() });
    }
    // all MEL of both inputs minus the fee
    let coin_value = w.snap().coins.get(&coin).map(|x| x.coin_data.value.0).unwrap_or(0);
    tx.outputs.push(CoinData { covhash: CovSpec::True.hash(), value: CoinValue(coin_value + fee_coin_value - fee), denom: Denom::Mel, additional_data: Default::default() });
    w.reg.tx(&tx);
    let pre = decode_view(&w.view(), &w.reg);
    let (verdict, _) = {
        let hdrf = |x: u64| w.header_at(x);
        let ctx = RefCtx { header_at: &hdrf, max_steps: 100_000 };
        refstf::apply_batch(&pre, std::slice::from_ref(&tx), &ctx)
    };
    let got = match w.apply_batch(std::slice::from_ref(&tx)) {
        O::Ok(()) => true,
        O::Rejected(_) => false,
        O::Panicked(p) => {
            st.exclude("panicked");
            let _ = p;
            return Ok(None);
        }
    };
    let desc = format!(
        "net {:?} height {} coin age {} difficulty {} (claimed {}) variant {} ERG {} (bound {}) corruption {}",
        w.net,
        h,
        age,
        difficulty,
        claimed,
        if c.variant910 { "tip910" } else { "legacy" },
        erg,
        bound,
        corruption
    );
    if verdict.unspecified.is_some() {
        st.exclude("unspecified");
        return Ok(Some((tx, got)));
    }
    match (&verdict.reject, got) {
        (Some(r), true) => {
            let what = if erg > bound && corruption == "none" {
                "mint-above-reward-bound-accepted"
            } else if w.net == NetID::Mainnet && age < 100 && corruption == "none" {
                "mint-of-young-coin-accepted-on-mainnet"
            } else {
                "mint-with-invalid-proof-accepted"
            };
            viol!(what, "{}: accepted although {:?}", desc, r);
        }
        (None, false) => {
            if corruption == "none" && erg <= bound {
                viol!("valid-mint-rejected", "{}: a mint with a genuine proof at or below the bound is rejected", desc);
            }
        }
        _ => {}
    }
    st.class(if got { "mint-accepted" } else { "mint-rejected" });
    st.class(&format!("corruption-{}", corruption));
    st.class(&format!("amount-class-{}", ["at-bound", "bound+1", "bound-1", "zero", "half", "double"][amount_class as usize % 6]));
    if bound > 0 {
        st.class("nonzero-reward-bound");
    }
    st.nontrivial(h64(format!("{}|{}|{}|{}|{}|{}", difficulty, c.variant910, age, amount_class % 6, corruption, w.net as u8).as_bytes()));
    Ok(Some((tx, got)))
}

pub fn check_case(c: &Case, st: &mut Stats, shard: usize) -> Check {
    st.eval();
    let net = [NetID::Custom02, NetID::Custom02, NetID::Mainnet, NetID::Testnet][c.net as usize % 4];
    let g = GenesisSpec {
        net,
        init: CoinData { covhash: CovSpec::True.hash(), value: CoinValue(1 << 70), denom: Denom::Mel, additional_data: Default::default() },
        init_cov: CovSpec::True,
        fee_pool: 0,
        fee_mult: 100,
        stakes: vec![],
    };
    let mut w = World::new(g, shard);
    for _ in 0..(1 + (c.lead & 0x3f) % 6) {
        if !matches!(w.seal(None), O::Ok(_)) {
            return Ok(());
        }
    }
    // a lower starting DOSC speed (state re-based through the public from_block) makes rewards large and lets an
    // ordinary mint raise the recorded speed, so that the speed at a coin's creation and at its mint differ
    let start_speed: Option<u128> = match c.lead >> 6 {
        1 => Some(10),
        2 => Some(5_000),
        // ... and a speed far above anything the proof-of-work budget of a check can demonstrate: the recorded
        // speed must survive sealing unchanged (it is a maximum, so it can never come down)
        3 if c.age % 2 == 0 => Some(1_000_000_007 + (c.amount as u128 % 7) * 10_000_000_000),
        _ => None,
    };
    if let (Some(sp), Some(s)) = (start_speed, w.last_sealed.clone()) {
        let mut blk = s.to_block();
        blk.header.dosc_speed = sp;
        let r = crate::world::Sealed::from_block(&blk, &s.raw_stakes(), &w.db);
        let hd = r.header();
        w.headers.insert(hd.height.0, hd);
        w.cur = r.next_unsealed();
        w.last_sealed = Some(r);
        st.class(if sp > 1_000_000 { "high-starting-dosc-speed" } else { "low-starting-dosc-speed" });
    }
    // funding: three small coins to mint against + fee coins, created at height 1
    let mut fund = Transaction::new(TxKind::Normal);
    fund.inputs = vec![CoinID::zero_zero()];
    fund.covenants = vec![CovSpec::True.bytes().into()];
    let fee = 1u128 << 30;
    for _ in 0..2 {
        fund.outputs.push(CoinData { covhash: CovSpec::True.hash(), value: CoinValue(1000), denom: Denom::Mel, additional_data: Default::default() });
    }
    for _ in 0..2 {
        fund.outputs.push(CoinData { covhash: CovSpec::True.hash(), value: CoinValue(1 << 40), denom: Denom::Mel, additional_data: Default::default() });
    }
    fund.outputs.push(CoinData { covhash: CovSpec::True.hash(), value: CoinValue((1u128 << 70) - 2000 - (2u128 << 40) - fee), denom: Denom::Mel, additional_data: Default::default() });
    fund.fee = CoinValue(fee);
    if !matches!(w.apply_batch(std::slice::from_ref(&fund)), O::Ok(())) {
        st.exclude("funding-rejected");
        return Ok(());
    }
    let coin_height = w.height();
    let fh = fund.hash_nosigs();
    let age = ages()[c.age as usize % ages().len()];
    for _ in 0..age {
        if !matches!(w.seal(None), O::Ok(_)) {
            return Ok(());
        }
    }
    let corruption = CORRUPTIONS[c.corruption as usize % CORRUPTIONS.len()];
    let d1 = c.difficulty as u32;
    let speed_before = w.header_at(w.height() - 1).map(|h| h.dosc_speed).unwrap_or(0);
    let r1 = mint_once(&mut w, st, CoinID::new(fh, 0), coin_height, CoinID::new(fh, 2), 1 << 40, c, d1, c.amount, corruption)?;
    let accepted1 = r1.as_ref().map_or(false, |x| x.1);
    let h1 = w.height();
    let sealed = match w.seal(None) {
        O::Ok(s) => s,
        _ => return Ok(()),
    };
    // recorded speed = max(previous, demonstrated)
    let hdr = sealed.header();
    let demonstrated = if accepted1 { refstf::mint_bound(if c.variant910 { 100 } else { 1 }, d1, h1 - coin_height, speed_before, h1).map(|x| x.0).unwrap_or(0) } else { 0 };
    let want_speed = speed_before.max(demonstrated);
    if corruption == "none" && hdr.dosc_speed != want_speed {
        viol!(
            "dosc-speed-not-max",
            "after block {} (mint accepted: {}) the header's DOSC speed is {}, expected max(previous {}, demonstrated {}) = {}",
            h1,
            accepted1,
            hdr.dosc_speed,
            speed_before,
            demonstrated,
            want_speed
        );
    }
    if hdr.dosc_speed < speed_before {
        viol!("dosc-speed-decreased", "DOSC speed fell from {} to {}", speed_before, hdr.dosc_speed);
    }
    if let Some((doff, amt)) = c.second {
        // a second, slower or faster mint one block later
        let d2 = (d1 as i64 + (doff % 3) as i64 - 1).clamp(1, 14) as u32;
        let before2 = hdr.dosc_speed;
        let r2 = mint_once(&mut w, st, CoinID::new(fh, 1), coin_height, CoinID::new(fh, 3), 1 << 40, c, d2, amt, "none")?;
        let h2 = w.height();
        if let O::Ok(s2) = w.seal(None) {
            let got = s2.header().dosc_speed;
            if got < before2 {
                viol!("dosc-speed-decreased", "DOSC speed fell from {} to {} after a second mint", before2, got);
            }
            if r2.as_ref().map_or(false, |x| x.1) {
                let dem = refstf::mint_bound(if c.variant910 { 100 } else { 1 }, d2, h2 - coin_height, before2, h2).map(|x| x.0).unwrap_or(0);
                if got != before2.max(dem) {
                    viol!("dosc-speed-not-max", "after a second mint the DOSC speed is {}, expected max({}, {})", got, before2, dem);
                }
                st.class("second-mint-accepted");
            }
        }
    }
    Ok(())
}

pub fn run(ctx: &Ctx) -> (Outcome, String, Option<bool>) {
    let thorough = ctx.thorough();
    let out = run_sharded(
        ctx,
        "mints",
        ctx.scale(240, 1500),
        move || {
            (
                any::<u8>(),
                any::<u8>(),
                proptest::bool::weighted(0.65),
                any::<u8>(),
                any::<u8>(),
                any::<u8>(),
                any::<u16>(),
                proptest::option::weighted(0.4, (any::<u8>(), any::<u8>())),
                any::<u8>(),
            )
                .prop_map(move |(net, age, variant910, dsel, amount, corruption, cparam, second, lead)| {
                    let difficulty = if variant910 {
                        [1u8, 8, 10, 10, 11, 11, 12][dsel as usize % if thorough { 7 } else { 6 }]
                    } else {
                        [1u8, 6, 12, 14, 16, 17][dsel as usize % if thorough { 6 } else { 4 }]
                    };
                    Case { net, age, variant910, difficulty, amount, corruption, cparam, second, lead }
                })
        },
        |c, st, shard| {
            let r = check_case(c, st, shard);
            if st.want_sample() {
                st.sample(|| json!(c));
            }
            r
        },
    );
    // two mints in ONE batch, fast one first or last, on a single-threaded pool: the recorded speed is the maximum
    let mut out = out;
    let o = run_sharded(
        ctx,
        "two-mints-one-batch",
        ctx.scale(3, 16),
        || (any::<bool>(), 13u8..15, 1u8..3),
        |(fast_first, d_fast, gap), st, shard| {
            st.eval();
            two_mints_one_batch(*fast_first, *d_fast as u32, *gap as u32, st, shard)
        },
    );
    out.absorb(o);
    let rule = "Generated: a coin created at height 1-6 on Custom02 / Mainnet / Testnet and aged 1, 2, 3, 7, 30, 98, 99, 100, 101 or 140 blocks; a genuine MelPoW proof generated for the puzzle hash_keyed(header(creation height).hash(), stdcode(coin id)) under the legacy hash (difficulty 1-14 quick, to 17 thorough) or the TIP-910 hash (1-11 quick, 12 thorough); ERG output at the independently recomputed bound floor(reward x inflator) / +1 / -1 / 0 / half / double; then one of: no corruption (4/12), a flipped label bit, a dropped node, difficulty claimed +-1, proof for another coin, for another height's header, undecodable data or proof bytes, the fee coin listed first; optionally a second mint one block later at a neighbouring difficulty; a quarter of the cases each start from a state re-based to DOSC speed 10 or 5000 (so that rewards are non-zero and the first mint raises the speed seen by the second); plus a phase with four TIP-910 mints (difficulty 13-14, one 1-2 lower, 8 and 9) in ONE batch with the fastest first in either half, on a single-threaded pool, and the same four mints applied one call at a time (a block built in steps: the recorded speed must not fall back). Oracle (RefSTF's mint rules with the harness's own copies of both hash functions): accepted => proof verifies for that puzzle and difficulty, ERG <= bound, age >= 100 on mainnet; a genuine proof at or below the bound is accepted; after sealing, header DOSC speed = max(previous, demonstrated speed) and never decreases. Non-trivial = every mint carrying a generated proof; distinct by (difficulty, variant, age, amount class, corruption, network).".to_string();
    (out, rule, None)
}

pub fn replay(case: &serde_json::Value) -> Check {
    if let Ok((fast_first, d, gap)) = serde_json::from_value::<(bool, u8, u8)>(case.clone()) {
        let mut st = Stats::default();
        return two_mints_one_batch(fast_first, d as u32, gap as u32, &mut st, 200);
    }
    let c: Case = serde_json::from_value(case.clone()).map_err(|e| Violation::new("replay-format", e.to_string()))?;
    let mut st = Stats::default();
    check_case(&c, &mut st, 200)
}

fn two_mints_one_batch(fast_first: bool, d_fast: u32, gap: u32, st: &mut Stats, shard: usize) -> Check {
    let g = GenesisSpec {
        net: NetID::Custom02,
        init: CoinData { covhash: CovSpec::True.hash(), value: CoinValue(1 << 70), denom: Denom::Mel, additional_data: Default::default() },
        init_cov: CovSpec::True,
        fee_pool: 0,
        fee_mult: 100,
        stakes: vec![],
    };
    let mut w = World::new(g, shard);
    if !matches!(w.seal(None), O::Ok(_)) {
        return Ok(());
    }
    let mut fund = Transaction::new(TxKind::Normal);
    fund.inputs = vec![CoinID::zero_zero()];
    fund.covenants = vec![CovSpec::True.bytes().into()];
    let fee = 1u128 << 30;
    for _ in 0..4 {
        fund.outputs.push(CoinData { covhash: CovSpec::True.hash(), value: CoinValue(1 << 40), denom: Denom::Mel, additional_data: Default::default() });
    }
    fund.outputs.push(CoinData { covhash: CovSpec::True.hash(), value: CoinValue((1u128 << 70) - (4u128 << 40) - fee), denom: Denom::Mel, additional_data: Default::default() });
    fund.fee = CoinValue(fee);
    if !matches!(w.apply_batch(std::slice::from_ref(&fund)), O::Ok(())) {
        return Ok(());
    }
    let coin_height = w.height();
    if !matches!(w.seal(None), O::Ok(_)) {
        return Ok(());
    }
    let fh = fund.hash_nosigs();
    let hdr = match w.header_at(coin_height) {
        Some(h) => h,
        None => return Ok(()),
    };
    let h = w.height();
    let prev = w.header_at(h - 1).map(|x| x.dosc_speed).unwrap_or(0);
    let mk = |idx: u8, d: u32| {
        let coin = CoinID::new(fh, idx);
        let puzzle = tmelcrypt::hash_keyed(hdr.hash(), &stdcode::serialize(&coin).unwrap());
        let proof = melpow::Proof::generate(&puzzle, d as usize, T910);
        let mut tx = Transaction::new(TxKind::DoscMint);
        tx.inputs = vec![coin];
        tx.covenants = vec![CovSpec::True.bytes().into()];
        tx.data = stdcode::serialize(&(d, proof.to_bytes())).unwrap().into();
        tx.fee = CoinValue(1 << 30);
        tx.outputs.push(CoinData { covhash: CovSpec::True.hash(), value: CoinValue((1u128 << 40) - (1 << 30)), denom: Denom::Mel, additional_data: Default::default() });
        tx
    };
    // four mints: rayon splits a batch at least once even on one thread, so the fast mint must share its half
    // with a slower one that is folded after it
    let d_slow = d_fast - gap;
    let fast = mk(0, d_fast);
    let slows = vec![mk(1, d_slow), mk(2, 8), mk(3, 9)];
    let mut batch = slows;
    batch.insert(if fast_first { 0 } else { 2 }, fast);
    let s_fast = refstf::mint_bound(100, d_fast, h - coin_height, prev, h).map(|x| x.0).unwrap_or(0);
    let s_slow = refstf::mint_bound(100, d_slow, h - coin_height, prev, h).map(|x| x.0).unwrap_or(0);
    let single = crate::world::mk_pool(shard, 1);
    let mut trial = w.cur.clone();
    let r = crate::util::catch(|| single.install(|| trial.apply_tx_batch(&batch).map(|_| trial.clone().seal(None).header().dosc_speed)));
    match r {
        Ok(Ok(got)) => {
            let want = prev.max(s_fast).max(s_slow);
            if got != want {
                viol!(
                    "dosc-speed-not-max-of-batch",
                    "four mints in one batch (the one of difficulty {} {} the one of difficulty {}): header speed {}, expected max(previous {}, {}, {}) = {}",
                    d_fast,
                    if fast_first { "before" } else { "after" },
                    d_slow,
                    got,
                    prev,
                    s_fast,
                    s_slow,
                    want
                );
            }
            st.nontrivial(h64(format!("two-mints|{}|{}|{}", fast_first, d_fast, gap).as_bytes()));
            st.class("two-mints-in-one-batch");
        }
        Ok(Err(_)) => st.exclude("two-mint-batch-rejected"),
        Err(_) => st.exclude("panicked"),
    }
    // the same four mints handed to the block one call at a time (a builder filling its block step by step), the
    // fastest first or third: the speed recorded for the block is still the maximum, and it never falls back mid-block
    let mut trial = w.cur.clone();
    let r = crate::util::catch(|| {
        single.install(|| {
            for tx in batch.iter() {
                trial.apply_tx(tx)?;
            }
            Ok::<u128, melstf::StateError>(trial.clone().seal(None).header().dosc_speed)
        })
    });
    match r {
        Ok(Ok(got)) => {
            let want = prev.max(s_fast).max(s_slow);
            if got != want {
                viol!(
                    "dosc-speed-not-max-of-block-built-in-steps",
                    "four mints applied one call at a time (the one of difficulty {} {} the others): header speed {}, expected max(previous {}, {}, {}) = {}",
                    d_fast,
                    if fast_first { "first" } else { "third" },
                    got,
                    prev,
                    s_fast,
                    s_slow,
                    want
                );
            }
            st.class("four-mints-in-separate-calls-of-one-block");
        }
        Ok(Err(_)) => st.exclude("stepwise-mints-rejected"),
        Err(_) => st.exclude("panicked"),
    }
    Ok(())
}
