//! C04 — a coin is spent only when its covenant approves that very spend.
use std::collections::BTreeMap;

use melstructs::{Address, CoinData, CoinDataHeight, CoinID, CoinValue, Denom, NetID, Transaction, TxKind};
use proptest::prelude::*;
use serde_json::json;

use crate::evidence::{Check, Stats, Violation};
use crate::refstf;
use crate::refvm::{self, REnv, ROp};
use crate::runner::{run_sharded, Ctx, Outcome};
use crate::util::h64;
use crate::viol;
use crate::world::{pk, sk, CovSpec, GenesisSpec, Outcome as O, World, NKEYS};

#[derive(Clone, Debug, serde::Serialize, serde::Deserialize)]
pub struct Case {
    /// (family, parameter) per locked coin
    pub fams: Vec<(u8, u64)>,
    pub blocks_before: u8,
    pub blocks_between: u8,
    pub order: u32,
    pub tamper: u8,
    pub tparam: u16,
    pub net: u8,
    pub program: Vec<(u8, u64)>,
}

fn be(v: u128) -> [u8; 32] {
    let mut b = [0u8; 32];
    b[16..].copy_from_slice(&v.to_be_bytes());
    b
}

#[derive(Clone, Debug)]
struct Lock {
    fam: &'static str,
    cov: Vec<u8>,
    adata: Vec<u8>,
    value: u128,
    denom: Denom,
    sig: Option<(bool, usize)>, // (legacy?, key)
    preimage: Option<Vec<u8>>,
}

const PREIMAGE: &[u8] = b"open sesame";

fn make_lock(fam: u8, p: u64, program: &[(u8, u64)], funding_height: u64) -> Lock {
    let enc = |ops: Vec<ROp>| refvm::encode(&ops).unwrap();
    let base = Lock { fam: "", cov: vec![], adata: vec![], value: 1000 + (p % 7) as u128, denom: Denom::Mel, sig: None, preimage: None };
    let key = (p % NKEYS as u64) as usize;
    match fam % 15 {
        14 => {
            // "NOT signed by K" / k-of-n style: a signature check on (possibly doubly) abnormal operands whose outcome
            // is negated, so that 'the check pushes 0' releases the coin while 'the check fails' does not
            let keylen = [32usize, 33, 31, 32, 40][(p % 5) as usize];
            let siglen = [64usize, 65, 64, 63, 80][((p >> 3) % 5) as usize];
            let msg: ROp = if (p >> 6) % 4 == 0 { ROp::PushIC(be(5)) } else { ROp::PushB(vec![3u8; 10 + ((p >> 8) % 30) as usize]) };
            let n = [0u16, 9, 10, 32, 65535][((p >> 13) % 5) as usize];
            Lock {
                fam: "negated-signature-check",
                cov: enc(vec![ROp::PushB(vec![1u8; siglen]), ROp::PushB(vec![2u8; keylen]), msg, ROp::SigEOk(n), ROp::PushIC(be(0)), ROp::Eql]),
                ..base
            }
        }
        0 => Lock { fam: "sig-legacy", cov: CovSpec::SigLegacy(key).bytes(), sig: Some((true, key)), ..base },
        1 | 2 => Lock { fam: "sig-new", cov: CovSpec::SigNew(key).bytes(), sig: Some((false, key)), ..base },
        3 => {
            // hash-lock on tx.data
            let h = *blake3::hash(if p % 4 == 0 { b"another secret" } else { PREIMAGE }).as_bytes();
            Lock {
                fam: "hash-lock",
                cov: enc(vec![ROp::PushI(be(5)), ROp::LoadImm(0), ROp::VRef, ROp::Hash(64), ROp::BtoI, ROp::PushI(h), ROp::Eql]),
                preimage: Some(PREIMAGE.to_vec()),
                ..base
            }
        }
        4 => {
            // previous header's height must exceed T
            let t = funding_height + (p % 4) - 1;
            Lock { fam: "time-lock-previous-header", cov: enc(vec![ROp::PushI(be(2)), ROp::LoadImm(10), ROp::VRef, ROp::PushI(be(t as u128)), ROp::Lt]), ..base }
        }
        5 => {
            // creation height must equal H
            let hh = funding_height + (p % 3) - 1;
            Lock { fam: "creation-height-bound", cov: enc(vec![ROp::LoadImm(8), ROp::PushI(be(hh as u128)), ROp::Eql]), ..base }
        }
        6 | 7 => Lock { fam: "index-bound", cov: enc(vec![ROp::LoadImm(9), ROp::PushI(be((p % 4) as u128)), ROp::Eql]), ..base },
        8 => {
            // values below and above 2^64
            let v = match (p >> 3) % 3 {
                0 => 1000 + (p % 7) as u128,
                1 => (1u128 << 64) + 1_500_000 + (p % 7) as u128,
                _ => (1u128 << 70) + (p % 1000) as u128,
            };
            let claimed = if p % 5 == 0 { v + 1 } else { v };
            Lock { fam: "value-bound", cov: enc(vec![ROp::LoadImm(5), ROp::PushI(be(claimed)), ROp::Eql]), value: v, ..base }
        }
        9 => {
            // denomination byte and additional data hash
            let ad = vec![(p % 251) as u8; 1 + (p % 40) as usize];
            let h = *blake3::hash(&ad).as_bytes();
            let denom = if p % 3 == 0 { Denom::Sym } else { Denom::Mel };
            Lock {
                fam: "denomination-and-data-bound",
                cov: enc(vec![
                    ROp::PushI(be(0)),
                    ROp::LoadImm(6),
                    ROp::BRef,
                    ROp::PushI(be(0x6d)),
                    ROp::Eql,
                    ROp::LoadImm(7),
                    ROp::Hash(64),
                    ROp::BtoI,
                    ROp::PushI(h),
                    ROp::Eql,
                    ROp::And,
                ]),
                adata: ad,
                denom,
                ..base
            }
        }
        10 => {
            // parent output index echo: the coin must be output number k of its creating transaction
            Lock { fam: "parent-index-bound", cov: enc(vec![ROp::LoadImm(3), ROp::PushI(be((p % 5) as u128)), ROp::Eql]), ..base }
        }
        11 => {
            let ops = crate::vmgen::build_program(program);
            if refvm::weight(&ops) > 20_000 {
                Lock { fam: "constant", cov: enc(vec![ROp::PushI(be(1))]), ..base }
            } else {
                Lock { fam: "random-program", cov: enc(ops), ..base }
            }
        }
        12 => match p % 4 {
            0 => Lock { fam: "constant-false", cov: enc(vec![ROp::PushI(be(0))]), ..base },
            1 => Lock { fam: "empty-stack", cov: enc(vec![ROp::Noop]), ..base },
            2 => Lock { fam: "bytes-truthy", cov: enc(vec![ROp::PushB(vec![0])]), ..base },
            _ => Lock { fam: "fails", cov: enc(vec![ROp::PushI(be(1)), ROp::PushI(be(0)), ROp::Div]), ..base },
        },
        _ => Lock { fam: "undecodable", cov: vec![0xf2, 0x02, 0x00, 0x01], ..base },
    }
}

pub fn check_case(c: &Case, st: &mut Stats, shard: usize) -> Check {
    st.eval();
    let net = [NetID::Custom02, NetID::Custom08, NetID::Testnet][c.net as usize % 3];
    let g = GenesisSpec {
        net,
        init: CoinData { covhash: CovSpec::True.hash(), value: CoinValue(1 << 100), denom: Denom::Mel, additional_data: Default::default() },
        init_cov: CovSpec::True,
        fee_pool: 0,
        fee_mult: 100,
        stakes: vec![],
    };
    let mut w = World::new(g, shard);
    for _ in 0..(1 + c.blocks_before % 3) {
        if !matches!(w.seal(None), O::Ok(_)) {
            return Ok(());
        }
    }
    let funding_height = w.height();
    let locks: Vec<Lock> = c.fams.iter().map(|(f, p)| make_lock(*f, *p, &c.program, funding_height)).collect();
    // SYM for the denomination family comes from a faucet
    let mut faucet = Transaction::new(TxKind::Faucet);
    faucet.outputs.push(CoinData { covhash: CovSpec::True.hash(), value: CoinValue(1 << 40), denom: Denom::Sym, additional_data: Default::default() });
    faucet.fee = CoinValue(1 << 30);
    if !matches!(w.apply_batch(std::slice::from_ref(&faucet)), O::Ok(())) {
        return Ok(());
    }
    // funding transaction
    let mut fund = Transaction::new(TxKind::Normal);
    fund.inputs = vec![CoinID::zero_zero(), CoinID::new(faucet.hash_nosigs(), 0)];
    fund.covenants = vec![CovSpec::True.bytes().into()];
    let mut mel_locked = 0u128;
    let mut sym_locked = 0u128;
    for l in locks.iter() {
        fund.outputs.push(CoinData {
            covhash: Address(tmelcrypt::hash_single(&l.cov)),
            value: CoinValue(l.value),
            denom: l.denom,
            additional_data: l.adata.clone().into(),
        });
        if l.denom == Denom::Mel {
            mel_locked += l.value
        } else {
            sym_locked += l.value
        }
    }
    let fee1 = 1u128 << 24;
    fund.outputs.push(CoinData { covhash: CovSpec::True.hash(), value: CoinValue((1u128 << 100) - mel_locked - fee1), denom: Denom::Mel, additional_data: Default::default() });
    fund.outputs.push(CoinData { covhash: CovSpec::True.hash(), value: CoinValue((1u128 << 40) - sym_locked), denom: Denom::Sym, additional_data: Default::default() });
    fund.fee = CoinValue(fee1);
    if !matches!(w.apply_batch(std::slice::from_ref(&fund)), O::Ok(())) {
        st.exclude("funding-rejected");
        return Ok(());
    }
    let change_idx = locks.len();
    for _ in 0..(1 + c.blocks_between % 3) {
        if !matches!(w.seal(None), O::Ok(_)) {
            return Ok(());
        }
    }
    let h = w.height();
    let last_header = match w.header_at(h - 1) {
        Some(x) => x,
        None => return Ok(()),
    };
    // the spend: all locked coins + the MEL change coin (pays the fee), in a generated order
    let fh = fund.hash_nosigs();
    let mut ins: Vec<(CoinID, Option<usize>)> = (0..locks.len()).map(|i| (CoinID::new(fh, i as u8), Some(i))).collect();
    ins.push((CoinID::new(fh, change_idx as u8), None));
    crate::plan::shuffle(&mut ins, c.order);
    // the spender is usually an ordinary transaction; a coin's covenant must be honoured by every other kind too
    // (a faucet is exempt from balancing, not from authorisation; pool requests are ordinary until sealing)
    let kind = match (c.net / 3) % 12 {
        0 | 1 => TxKind::Faucet,
        2 => TxKind::Swap,
        3 => TxKind::LiqDeposit,
        4 => TxKind::LiqWithdraw,
        _ => TxKind::Normal,
    };
    st.class(&format!("spender-kind-{:?}", kind));
    let mut tx = Transaction::new(kind);
    tx.inputs = ins.iter().map(|x| x.0).collect();
    let mut covs: Vec<Vec<u8>> = vec![CovSpec::True.bytes()];
    for l in locks.iter() {
        if !covs.contains(&l.cov) {
            covs.push(l.cov.clone());
        }
    }
    tx.covenants = covs.iter().map(|c| c.clone().into()).collect();
    tx.data = PREIMAGE.to_vec().into();
    let total_mel: u128 = mel_locked + ((1u128 << 100) - mel_locked - fee1);
    let fee2 = 1u128 << 26;
    tx.fee = CoinValue(fee2);
    tx.outputs.push(CoinData { covhash: CovSpec::True.hash(), value: CoinValue(total_mel - fee2 - 5), denom: Denom::Mel, additional_data: Default::default() });
    tx.outputs.push(CoinData { covhash: CovSpec::True.hash(), value: CoinValue(5), denom: Denom::Mel, additional_data: Default::default() });
    if sym_locked > 0 {
        tx.outputs.push(CoinData { covhash: CovSpec::True.hash(), value: CoinValue(sym_locked), denom: Denom::Sym, additional_data: Default::default() });
    }
    // signatures: legacy -> slot 0, new -> slot = input position
    let sign_all = |tx: &mut Transaction, wrong: Option<usize>| {
        let mut need: BTreeMap<usize, usize> = BTreeMap::new();
        for (pos, (_, li)) in ins.iter().enumerate() {
            if let Some(li) = li {
                match locks[*li].sig {
                    Some((true, k)) => {
                        need.entry(0).or_insert(k);
                    }
                    Some((false, k)) => {
                        need.insert(pos, k);
                    }
                    None => {}
                }
            }
        }
        tx.sigs.clear();
        if let Some(m) = need.keys().max() {
            tx.sigs = vec![bytes::Bytes::new(); m + 1];
            let hh = tx.hash_nosigs();
            for (slot, k) in need.iter() {
                let kk = if wrong == Some(*slot) { (*k + 1) % NKEYS } else { *k };
                tx.sigs[*slot] = sk(kk).sign(&hh.0 .0).into();
            }
        }
    };
    sign_all(&mut tx, None);
    // the untampered spend is validated once on a scratch copy (an admission check): whatever that leaves
    // behind in the process must not change the verdict on the tampered copy
    if c.tparam % 2 == 0 {
        let mut scratch = w.cur.clone();
        let pool = w.pool.clone();
        let t0 = tx.clone();
        let _ = crate::util::catch(|| pool.install(|| scratch.apply_tx(&t0)));
        st.class("untampered-copy-dry-run-first");
    }
    let tamper = match c.tamper % 16 {
        0..=6 => "none",
        7 => "sig-bit-flip",
        8 => "sig-wrong-key",
        9 => "sigs-swapped",
        10 => "outputs-changed-after-signing",
        11 => "covenant-omitted",
        12 => "covenant-replaced-by-garbage",
        13 => "covenant-replaced-by-other-program",
        14 => "data-changed-after-signing",
        _ => "sigs-dropped",
    };
    let tp = c.tparam as usize;
    let covenants_before_tampering = tx.covenants.clone();
    match tamper {
        "sig-bit-flip" => {
            let slots: Vec<usize> = tx.sigs.iter().enumerate().filter(|(_, s)| !s.is_empty()).map(|x| x.0).collect();
            if let Some(s) = slots.get(tp % slots.len().max(1)) {
                let mut v = tx.sigs[*s].to_vec();
                v[tp % 64] ^= 1 << (tp % 8);
                tx.sigs[*s] = v.into();
            }
        }
        "sig-wrong-key" => {
            let n = tx.sigs.len().max(1);
            sign_all(&mut tx, Some(tp % n));
        }
        "sigs-swapped" => {
            if tx.sigs.len() >= 2 {
                let a = tp % tx.sigs.len();
                let b = (a + 1) % tx.sigs.len();
                tx.sigs.swap(a, b);
            }
        }
        "outputs-changed-after-signing" => {
            tx.outputs[0].value = CoinValue(tx.outputs[0].value.0 - 1);
            tx.outputs[1].value = CoinValue(tx.outputs[1].value.0 + 1);
        }
        "covenant-omitted" => {
            if tp % 4 == 0 {
                // not a single covenant left
                tx.covenants.clear();
                sign_all(&mut tx, None);
            } else if tx.covenants.len() > 1 {
                let i = 1 + tp % (tx.covenants.len() - 1);
                tx.covenants.remove(i);
                sign_all(&mut tx, None);
            }
        }
        "covenant-replaced-by-garbage" => {
            if tx.covenants.len() > 1 {
                let i = 1 + tp % (tx.covenants.len() - 1);
                tx.covenants[i] = vec![0xde, 0xad, (tp % 256) as u8].into();
                sign_all(&mut tx, None);
            }
        }
        "covenant-replaced-by-other-program" => {
            if tx.covenants.len() > 1 {
                let i = 1 + tp % (tx.covenants.len() - 1);
                tx.covenants[i] = refvm::encode(&[ROp::PushI(be(1)), ROp::Noop]).unwrap().into();
                sign_all(&mut tx, None);
            }
        }
        "data-changed-after-signing" => {
            tx.data = b"open sesame!".to_vec().into();
        }
        "sigs-dropped" => tx.sigs.clear(),
        _ => {}
    }
    // ---- reference: every input on its own environment
    let cov_by_hash: BTreeMap<Address, Vec<u8>> = tx.covenants.iter().map(|c| (Address(tmelcrypt::hash_single(c)), c.to_vec())).collect();
    let mut per_input: Vec<Option<bool>> = vec![];
    let mut reasons: Vec<String> = vec![];
    for (pos, (id, li)) in ins.iter().enumerate() {
        let cdh = match li {
            Some(li) => CoinDataHeight {
                coin_data: CoinData {
                    covhash: Address(tmelcrypt::hash_single(&locks[*li].cov)),
                    value: CoinValue(locks[*li].value),
                    denom: locks[*li].denom,
                    additional_data: locks[*li].adata.clone().into(),
                },
                height: melstructs::BlockHeight(funding_height),
            },
            None => CoinDataHeight { coin_data: fund.outputs[change_idx].clone(), height: melstructs::BlockHeight(funding_height) },
        };
        let verdict = match cov_by_hash.get(&cdh.coin_data.covhash) {
            None => {
                reasons.push(format!("input {}: no covenant with its hash", pos));
                Some(false)
            }
            Some(cb) => {
                let env = REnv { coin_id: *id, cdh: cdh.clone(), spender_index: pos as u64, last_header };
                let r = refvm::approves(cb, &tx, &env, 300_000);
                if r == Some(false) {
                    reasons.push(format!("input {} ({}): covenant does not approve", pos, li.map(|i| locks[i].fam).unwrap_or("change")));
                }
                r
            }
        };
        per_input.push(verdict);
    }
    if per_input.iter().any(|x| x.is_none()) {
        st.exclude("reference-budget");
        return Ok(());
    }
    let expected = per_input.iter().all(|x| *x == Some(true));
    // fee sanity (everything else must be valid by construction)
    if tx.fee.0 < refstf::min_fee(&tx, 100) {
        st.exclude("fee-not-covering");
        return Ok(());
    }
    // half of the spends whose covenant list was tampered with are offered together with a sibling: an unrelated
    // faucet transaction that carries (without needing them) exactly the covenants the spend had before - a covenant
    // counts only when the spending transaction itself carries it
    let mut offered = vec![tx.clone()];
    if tamper.starts_with("covenant-") && tp % 2 == 1 {
        let mut sib = Transaction::new(melstructs::TxKind::Faucet);
        sib.covenants = covenants_before_tampering.clone();
        sib.data = vec![0x51, (tp % 251) as u8].into();
        sib.outputs.push(CoinData { covhash: CovSpec::True.hash(), value: CoinValue(1), denom: Denom::Mel, additional_data: Default::default() });
        let min = refstf::min_fee(&sib, 100);
        if min < (1u128 << 90) {
            sib.fee = CoinValue(min + 10);
            if tp % 4 == 1 {
                offered.insert(0, sib);
            } else {
                offered.push(sib);
            }
            st.class("tampered-spend-next-to-a-sibling-carrying-its-covenants");
        }
    }
    let got = match w.apply_batch(&offered) {
        O::Ok(()) => true,
        O::Rejected(_) => false,
        O::Panicked(_) => {
            st.exclude("panicked");
            return Ok(());
        }
    };
    let fams: Vec<&str> = ins.iter().map(|(_, li)| li.map(|i| locks[i].fam).unwrap_or("change")).collect();
    if got != expected {
        if got && !expected {
            // classify: is every disapproving input a later input sharing its covenant hash with an approving earlier one?
            let mut first_of_hash: BTreeMap<Vec<u8>, usize> = BTreeMap::new();
            let mut only_cache = true;
            for (pos, (_, li)) in ins.iter().enumerate() {
                let key = li.map(|i| locks[i].cov.clone()).unwrap_or_else(|| CovSpec::True.bytes());
                let first = *first_of_hash.entry(key).or_insert(pos);
                if per_input[pos] == Some(false) && !(first != pos && per_input[first] == Some(true)) {
                    only_cache = false;
                }
            }
            let sig = if only_cache { "accepted-shared-covenant-evaluated-once-per-hash" } else { "accepted-although-a-covenant-disapproves" };
            viol!(
                sig,
                "spend with inputs {:?} (tamper: {}) is accepted although {:?}",
                fams,
                tamper,
                reasons
            );
        } else {
            viol!(
                "rejected-although-all-covenants-approve",
                "spend with inputs {:?} (tamper: {}) is rejected although every input's covenant approves on its own environment",
                fams,
                tamper
            );
        }
    }
    let differing = per_input.iter().any(|x| *x == Some(true)) && per_input.iter().any(|x| *x == Some(false));
    if (ins.len() >= 2 && differing) || tamper != "none" {
        let mut f: Vec<String> = fams.iter().map(|s| s.to_string()).collect();
        f.push(tamper.to_string());
        f.push(format!("{:?}", per_input));
        st.nontrivial(h64(f.join("|").as_bytes()));
    }
    st.class(if got { "spend-accepted" } else { "spend-rejected" });
    st.class(&format!("tamper-{}", tamper));
    for f in fams.iter() {
        st.class(&format!("family-{}", f));
    }
    if differing {
        st.class("inputs-with-differing-verdicts");
    }
    Ok(())
}

pub fn run(ctx: &Ctx) -> (Outcome, String, Option<bool>) {
    let out = run_sharded(
        ctx,
        "covenant-spends",
        ctx.scale(5000, 60_000),
        || {
            (
                // mostly 1-5 locked coins; one spend in ten is wide (24-70 locked coins drawn from few families, so
                // that many inputs share a covenant hash and are interleaved with inputs under other hashes)
                prop_oneof![
                    9 => proptest::collection::vec((any::<u8>(), any::<u64>()), 1..6),
                    1 => (proptest::collection::vec((any::<u8>(), 0u64..3), 2..5), proptest::collection::vec(any::<u8>(), 24..70))
                        .prop_map(|(kinds, picks)| picks.into_iter().map(|i| kinds[i as usize % kinds.len()]).collect::<Vec<_>>()),
                ],
                any::<u8>(),
                any::<u8>(),
                any::<u32>(),
                any::<u8>(),
                any::<u16>(),
                any::<u8>(),
                crate::vmgen::choices(12),
            )
                .prop_map(|(fams, blocks_before, blocks_between, order, tamper, tparam, net, program)| Case {
                    fams,
                    blocks_before,
                    blocks_between,
                    order,
                    tamper,
                    tparam,
                    net,
                    program,
                })
        },
        |c, st, shard| {
            let r = check_case(c, st, shard);
            if st.want_sample() {
                st.sample(|| json!({"families": c.fams.iter().map(|f| f.0 % 15).collect::<Vec<_>>(), "tamper": c.tamper % 16, "order": c.order}));
            }
            r
        },
    );
    let rule = "Generated: 1-5 coins (one spend in ten: 24-70 coins from 2-4 families, many sharing a covenant hash) locked by covenants from the families legacy signature (slot 0), new signature (slot = input position), hash-lock on tx.data, time-lock on the previous header's height, creation-height bound, spender-index bound, value bound, denomination + additional-data bound, parent-output-index bound, constant false / empty stack / non-integer result / failing program, negated signature checks on abnormal operands, undecodable bytes, and type-aware random programs; created by one funding transaction at height >= 1 on Custom02/Custom08/Testnet, then spent together with a fee-paying coin by one transaction (ordinary in 7 of 12 cases, otherwise of kind faucet, swap, deposit or withdrawal) with the inputs in a generated order, and tampered in 9 ways (signature bit flip, wrong key, swapped slots, signatures dropped, outputs or data changed after signing, covenant omitted / replaced by garbage / by another program). Half of the spends with a tampered covenant list are offered in one batch with an unrelated faucet transaction that carries the untampered covenants. Balance and fee are valid by construction. Oracle: apply_tx accepts <=> for every input the transaction carries bytes hashing to the coin's covenant hash that decode and that RefVM evaluates to a truthy value on (transaction, that input's id, value, denomination, additional data, creation height, position, previous header). Non-trivial = a spend of >=2 inputs whose verdicts differ, or any tampered spend; distinct by (families in input order, tamper, verdict vector).".to_string();
    (out, rule, None)
}

pub fn replay(case: &serde_json::Value) -> Check {
    let c: Case = serde_json::from_value(case.clone()).map_err(|e| Violation::new("replay-format", e.to_string()))?;
    let mut st = Stats::default();
    check_case(&c, &mut st, 200)
}
