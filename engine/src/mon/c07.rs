//! C07 — headers commit to the whole state and chain together; contents are provable.
use std::collections::{BTreeMap, HashMap};

use melstf::SmtMapping;
use melstructs::{BlockHeight, CoinDataHeight, CoinID, Header, PoolKey, PoolState, Transaction, TxHash};
use novasmt::{dense::verify_dense, dense::DenseMerkleTree, Database, InMemoryCas};
use stdcode::StdcodeSerializeExt;

use crate::evidence::{Check, Stats};
use crate::plan::{BatchObs, Monitor, Profile, SealObs};
use crate::refstf::tips_at;
use crate::runner::{Ctx, Outcome};
use crate::util::h64;
use crate::viol;
use crate::world::{Sealed, World};

thread_local! {
    /// header hash -> content digest and back, across all sealed states seen by this shard
    static BY_HEADER: std::cell::RefCell<HashMap<[u8; 32], [u8; 32]>> = std::cell::RefCell::new(HashMap::new());
    static BY_CONTENT: std::cell::RefCell<HashMap<[u8; 32], [u8; 32]>> = std::cell::RefCell::new(HashMap::new());
}

#[derive(Default)]
pub struct C07 {
    prev: Option<Header>,
    net: Option<melstructs::NetID>,
    ancestors: BTreeMap<u64, Header>,
}

fn rebuild_root(entries: &[([u8; 32], Vec<u8>)], rot: usize) -> [u8; 32] {
    let db = Database::new(InMemoryCas::default());
    let mut t = db.get_tree([0; 32]).unwrap();
    let n = entries.len();
    for i in 0..n {
        let (k, v) = &entries[(i * 7 + rot) % n.max(1)];
        t.insert(*k, v);
    }
    // the permutation above is only a bijection when gcd(7, n) == 1; insert everything once more to be sure
    for (k, v) in entries {
        t.insert(*k, v);
    }
    t.root_hash()
}

fn tree_entries(t: &novasmt::Tree<InMemoryCas>) -> Vec<([u8; 32], Vec<u8>)> {
    let mut v: Vec<([u8; 32], Vec<u8>)> = t.iter().map(|(k, v)| (k, v.to_vec())).collect();
    v.sort();
    v
}

pub fn tx_root_sparse(txs: &[Transaction]) -> [u8; 32] {
    let entries: Vec<([u8; 32], Vec<u8>)> =
        txs.iter().map(|t| (tmelcrypt::hash_single(&t.hash_nosigs().stdcode()).0, t.stdcode())).collect();
    rebuild_root(&entries, 3)
}

pub fn tx_leaves_dense(txs: &[Transaction]) -> Vec<Vec<u8>> {
    let mut v: Vec<Vec<u8>> = txs
        .iter()
        .map(|t| {
            let mut x = t.hash_nosigs().0 .0.to_vec();
            x.extend_from_slice(&tmelcrypt::hash_single(&t.stdcode()).0);
            x
        })
        .collect();
    v.sort();
    v
}

fn content_digest(s: &Sealed, coins: &[([u8; 32], Vec<u8>)], pools: &[([u8; 32], Vec<u8>)], hist: &[([u8; 32], Vec<u8>)]) -> [u8; 32] {
    let mut h = blake3::Hasher::new();
    let hd = s.header();
    h.update(&[u8::from(hd.network)]);
    h.update(&hd.height.0.to_le_bytes());
    h.update(&hd.fee_pool.0.to_le_bytes());
    h.update(&hd.fee_multiplier.to_le_bytes());
    h.update(&hd.dosc_speed.to_le_bytes());
    for (tag, set) in [(1u8, coins), (2, pools), (3, hist)] {
        h.update(&[tag]);
        for (k, v) in set {
            h.update(k);
            h.update(&(v.len() as u64).to_le_bytes());
            h.update(v);
        }
    }
    let mut stakes: Vec<(TxHash, Vec<u8>)> = s.raw_stakes().iter().map(|(k, d)| (*k, d.stdcode())).collect();
    stakes.sort();
    h.update(&[4]);
    for (k, v) in stakes {
        h.update(&k.0 .0);
        h.update(&v);
    }
    let mut txs: Vec<Vec<u8>> = s.transactions().map(|t| t.stdcode()).collect();
    txs.sort();
    h.update(&[5]);
    for t in txs {
        h.update(&(t.len() as u64).to_le_bytes());
        h.update(&t);
    }
    *h.finalize().as_bytes()
}

impl Monitor for C07 {
    fn on_batch(&mut self, _w: &World, _ob: &BatchObs, _st: &mut Stats) -> Check {
        Ok(())
    }
    fn on_restart(&mut self, _w: &World, _before: &Sealed, _after: &Sealed, _st: &mut Stats) -> Check {
        Ok(())
    }
    fn on_seal(&mut self, w: &World, ob: &SealObs, st: &mut Stats) -> Check {
        let s = ob.sealed;
        let hd = s.header();
        // a header is a function of the state's own contents: asking the parent again, after a descendant
        // was built on it, must give the header it had when it was sealed; asking twice gives the same answer
        if let Some(parent) = ob.parent {
            let ph = parent.header();
            if let Some(rec) = w.headers.get(&ph.height.0) {
                if *rec != ph && parent.header().height.0 + 1 == hd.height.0 {
                    let mut fields = vec![];
                    if rec.stakes_hash != ph.stakes_hash {
                        fields.push("stakes_hash");
                    }
                    if rec.coins_hash != ph.coins_hash {
                        fields.push("coins_hash");
                    }
                    if rec.history_hash != ph.history_hash {
                        fields.push("history_hash");
                    }
                    if rec.transactions_hash != ph.transactions_hash {
                        fields.push("transactions_hash");
                    }
                    if rec.pools_hash != ph.pools_hash {
                        fields.push("pools_hash");
                    }
                    viol!(
                        "header-of-sealed-state-changed-later",
                        "the sealed state at height {} reported another header after block {} had been built on it (fields {:?})",
                        ph.height,
                        hd.height,
                        fields
                    );
                }
            }
        }
        if s.header() != hd {
            viol!("header-not-stable", "header() of the same sealed state gave two different answers at height {}", hd.height);
        }
        // a height jump (fabricated re-basing of the state) starts a new lineage as far as ancestors are concerned
        if let Some(p) = self.prev {
            if p.height.0 + 1 != hd.height.0 && hd.height.0 > p.height.0 {
                self.ancestors.clear();
                self.prev = None;
            }
        }
        // (a) linkage
        if let Some(n) = self.net {
            if hd.network != n {
                viol!("network-changed", "network id changed from {:?} to {:?}", n, hd.network);
            }
        }
        self.net = Some(hd.network);
        if let Some(p) = self.prev {
            if p.height.0 + 1 == hd.height.0 {
                if hd.previous != p.hash() {
                    viol!("previous-hash-wrong", "block {}: previous is not the hash of the parent header", hd.height);
                }
            } else if hd.height.0 <= p.height.0 {
                viol!("height-not-increasing", "height went from {} to {}", p.height, hd.height);
            }
        }
        if hd.height.0 == 0 && hd.previous != Default::default() {
            viol!("previous-hash-wrong", "block 0 has a non-zero previous hash");
        }
        for (h, anc) in self.ancestors.iter() {
            match s.history(BlockHeight(*h)) {
                Some(x) if x == *anc => {}
                other => viol!("history-missing-ancestor", "state at height {} does not hold ancestor header {} (got {:?})", hd.height, h, other.map(|x| x.height)),
            }
        }
        if s.history(hd.height).is_some() {
            viol!("history-holds-own-height", "history tree of the state at height {} already holds an entry at that height", hd.height);
        }
        // (a') the scalar header fields are the state's own scalars (read through the cfg hook), not a function of
        // them: any difference in the fee pool, fee multiplier or DOSC speed of the state must show in the header
        {
            let v = s.verif_view();
            if hd.network != v.network || hd.height != v.height {
                viol!("header-scalar-differs-from-state", "header of block {} says network {:?} height {}, the state holds {:?} / {}", hd.height, hd.network, hd.height, v.network, v.height);
            }
            if hd.fee_pool != v.fee_pool || hd.fee_multiplier != v.fee_multiplier || hd.dosc_speed != v.dosc_speed {
                viol!(
                    "header-scalar-differs-from-state",
                    "header of block {} records fee pool {} / multiplier {} / DOSC speed {}, the sealed state holds {} / {} / {}",
                    hd.height,
                    hd.fee_pool,
                    hd.fee_multiplier,
                    hd.dosc_speed,
                    v.fee_pool,
                    v.fee_multiplier,
                    v.dosc_speed
                );
            }
            if v.dosc_speed > 1_000_000_000 {
                st.class("dosc-speed-above-1e9");
            }
        }
        // (b) roots are functions of contents
        let coins = tree_entries(&s.raw_coins_smt());
        let pools = tree_entries(&s.raw_pools_smt());
        let hist = tree_entries(&s.raw_history_smt());
        if rebuild_root(&coins, 1) != hd.coins_hash.0 {
            viol!("coins-root-not-function-of-contents", "coin root of block {} differs from the root of a tree rebuilt from its {} entries", hd.height, coins.len());
        }
        {
            // from the decoded coins alone: coin entries, plus - once TIP-906 is active - the counts they imply
            let mut entries: Vec<([u8; 32], Vec<u8>)> =
                ob.post.coins.iter().map(|(id, cdh)| (tmelcrypt::hash_single(&id.stdcode()).0, cdh.stdcode())).collect();
            if tips_at(hd.network, hd.height.0).t906 {
                for (cov, n) in crate::refstf::recount(&ob.post.coins, true) {
                    entries.push((tmelcrypt::hash_keyed(b"coin_count", cov.0).0, n.stdcode()));
                }
            }
            if ob.post.unknown_coin_entries.is_empty() && rebuild_root(&entries, 5) != hd.coins_hash.0 {
                viol!(
                    "coins-root-not-function-of-coins",
                    "coin root of block {} ({:?}, TIP-906 {}) is not the root over its {} coins{}: the tree holds {} count entr(ies)",
                    hd.height,
                    hd.network,
                    tips_at(hd.network, hd.height.0).t906,
                    ob.post.coins.len(),
                    if tips_at(hd.network, hd.height.0).t906 { " and the counts they imply" } else { "" },
                    ob.post.counts.len()
                );
            }
        }
        if rebuild_root(&pools, 2) != hd.pools_hash.0 {
            viol!("pools-root-not-function-of-contents", "pool root of block {} differs from the root rebuilt from its contents", hd.height);
        }
        if rebuild_root(&hist, 3) != hd.history_hash.0 {
            viol!("history-root-not-function-of-contents", "history root of block {} differs from the root rebuilt from its contents", hd.height);
        }
        let stake_entries: Vec<([u8; 32], Vec<u8>)> =
            s.raw_stakes().iter().map(|(k, d)| (tmelcrypt::hash_single(&k.stdcode()).0, d.stdcode())).collect();
        if rebuild_root(&stake_entries, 4) != hd.stakes_hash.0 {
            viol!("stakes-root-wrong", "stakes_hash of block {} is not the root of the registered stakes ({} entries)", hd.height, stake_entries.len());
        }
        let txs: Vec<Transaction> = s.transactions().cloned().collect();
        let t908 = tips_at(hd.network, hd.height.0).t908;
        if t908 {
            let leaves = tx_leaves_dense(&txs);
            let dmt = DenseMerkleTree::new(&leaves);
            if dmt.root_hash() != hd.transactions_hash.0 {
                viol!("transactions-root-wrong-dense", "transactions_hash of block {} is not the dense root over the sorted (hash_nosigs || hash) leaves of its {} transactions", hd.height, txs.len());
            }
            for (i, leaf) in leaves.iter().enumerate() {
                let txh = TxHash(tmelcrypt::HashVal(leaf[..32].try_into().unwrap()));
                if s.transaction_sorted_posn(txh) != Some(i) {
                    viol!("sorted-position-wrong", "transaction_sorted_posn({}) = {:?}, dense position {}", txh, s.transaction_sorted_posn(txh), i);
                }
                if !verify_dense(&dmt.proof(i), hd.transactions_hash.0, i, novasmt::hash_data(leaf)) {
                    viol!("transaction-proof-fails", "dense proof of transaction {} of block {} does not verify against the header", i, hd.height);
                }
                st.class("tx-proof-dense");
            }
        } else {
            if tx_root_sparse(&txs) != hd.transactions_hash.0 {
                viol!("transactions-root-wrong-sparse", "transactions_hash of block {} is not the sparse root over hash_nosigs -> transaction of its {} transactions", hd.height, txs.len());
            }
            // proofs against the header's root from a tree we build ourselves
            let db = Database::new(InMemoryCas::default());
            let mut m: SmtMapping<InMemoryCas, TxHash, Transaction> = SmtMapping::new(db.get_tree([0; 32]).unwrap());
            for t in txs.iter() {
                m.insert(t.hash_nosigs(), t.clone());
            }
            for t in txs.iter() {
                let (v, proof) = m.get_with_proof(&t.hash_nosigs());
                if v.as_ref() != Some(t) || !proof.verify(hd.transactions_hash.0, tmelcrypt::hash_single(&t.hash_nosigs().stdcode()).0, &t.stdcode()) {
                    viol!("transaction-proof-fails", "sparse proof of a transaction of block {} does not verify against the header", hd.height);
                }
                st.class("tx-proof-sparse");
            }
        }
        // (c) header <-> contents bijection across everything this shard has seen
        let digest = content_digest(s, &coins, &pools, &hist);
        let hh = hd.hash().0;
        let clash = BY_HEADER.with(|m| {
            let mut m = m.borrow_mut();
            if m.len() > 200_000 {
                m.clear();
            }
            match m.insert(hh, digest) {
                Some(old) if old != digest => true,
                _ => false,
            }
        });
        if clash {
            viol!("header-not-sensitive-to-contents", "two sealed states with different contents have the same header hash (height {})", hd.height);
        }
        let clash = BY_CONTENT.with(|m| {
            let mut m = m.borrow_mut();
            if m.len() > 200_000 {
                m.clear();
            }
            match m.insert(digest, hh) {
                Some(old) if old != hh => true,
                _ => false,
            }
        });
        if clash {
            viol!("equal-contents-different-headers", "two sealed states with equal contents have different headers (height {})", hd.height);
        }
        // (d) membership / non-membership proofs against the roots in the header
        let cm: SmtMapping<InMemoryCas, CoinID, CoinDataHeight> = SmtMapping::new(s.raw_coins_smt());
        for (id, cdh) in ob.post.coins.iter() {
            let (v, proof) = cm.get_with_proof(id);
            if v.as_ref() != Some(cdh) || !proof.verify(hd.coins_hash.0, tmelcrypt::hash_single(&id.stdcode()).0, &cdh.stdcode()) {
                viol!("coin-proof-fails", "coin {} cannot be proven against coins_hash of block {}", id, hd.height);
            }
        }
        let pm: SmtMapping<InMemoryCas, PoolKey, PoolState> = SmtMapping::new(s.raw_pools_smt());
        for (k, p) in ob.post.pools.iter() {
            let (v, proof) = pm.get_with_proof(k);
            let ok = v.map_or(false, |x| (x.lefts, x.rights, x.liqs, x.price_accum) == (p.lefts, p.rights, p.liqs, p.price_accum));
            if !ok || !proof.verify(hd.pools_hash.0, tmelcrypt::hash_single(&stdcode::serialize(k).unwrap()).0, &p.stdcode()) {
                viol!("pool-proof-fails", "pool {} cannot be proven against pools_hash of block {}", k, hd.height);
            }
        }
        let hm: SmtMapping<InMemoryCas, BlockHeight, Header> = SmtMapping::new(s.raw_history_smt());
        for (h, anc) in self.ancestors.iter() {
            let (v, proof) = hm.get_with_proof(&BlockHeight(*h));
            if v.as_ref() != Some(anc) || !proof.verify(hd.history_hash.0, tmelcrypt::hash_single(&BlockHeight(*h).stdcode()).0, &anc.stdcode()) {
                viol!("history-proof-fails", "header {} cannot be proven against history_hash of block {}", h, hd.height);
            }
        }
        // absent keys
        for i in 0..8u64 {
            let absent = CoinID::new(TxHash(tmelcrypt::hash_single(&[hd.height.0.to_le_bytes(), i.to_le_bytes()].concat())), (i % 3) as u8);
            if ob.post.coins.contains_key(&absent) {
                continue;
            }
            let (v, proof) = cm.get_with_proof(&absent);
            if v.is_some() || !proof.verify(hd.coins_hash.0, tmelcrypt::hash_single(&absent.stdcode()).0, &[]) {
                viol!("absence-proof-fails", "absence of coin {} cannot be proven against coins_hash of block {}", absent, hd.height);
            }
            let (v, proof) = hm.get_with_proof(&BlockHeight(hd.height.0 + 1 + i));
            if v.is_some() || !proof.verify(hd.history_hash.0, tmelcrypt::hash_single(&BlockHeight(hd.height.0 + 1 + i).stdcode()).0, &[]) {
                viol!("absence-proof-fails", "absence of header {} cannot be proven against history_hash of block {}", hd.height.0 + 1 + i, hd.height);
            }
        }
        st.class_n("membership-proofs-verified", (ob.post.coins.len() + ob.post.pools.len() + self.ancestors.len()) as u64);
        if ob.post.coins.len() >= 3 && !txs.is_empty() && hd.height.0 >= 2 {
            st.nontrivial(h64(&hh));
        }
        st.class(if t908 { "sealed-state-tip908" } else { "sealed-state-pre908" });
        if hd.network == melstructs::NetID::Mainnet && hd.height.0 >= 180_000 && hd.height.0 < 830_000 && !ob.trace.withdrawals.is_empty() {
            st.class("legacy-window-withdrawal-settled");
        }
        self.prev = Some(hd);
        // teleports fabricate ancestors; only honest ones are tracked
        if w.headers.get(&hd.height.0) == Some(&hd) {
            self.ancestors.insert(hd.height.0, hd);
            if self.ancestors.len() > 40 {
                let k = *self.ancestors.keys().next().unwrap();
                self.ancestors.remove(&k);
            }
        }
        Ok(())
    }
}

pub fn profile() -> Profile {
    let mut p = Profile::general();
    p.net_w = [30, 40, 15, 15, 0, 0, 0, 0, 0];
    p.p_mut = 15;
    p.lead_blocks = 14;
    p.p_teleport = 1;
    p.kind_w[7] = 4;
    p.low_dosc_start = true;
    // the historic mainnet faucet, exempt from de-duplication, can be applied again and again (rewriting the same coin)
    p.grandfathered_faucet = true;
    p
}

pub fn run(ctx: &Ctx) -> (Outcome, String, Option<bool>) {
    let mut p = profile();
    if ctx.thorough() {
        p.max_steps = 30;
        p.max_txs = 10;
    }
    let mut out = super::hist::run_histories(ctx, "histories", p.clone(), ctx.scale(450, 4500), C07::default);
    // perturbation pairs: the same plan under configurations that differ in one scalar, so that near-identical
    // states (differing only in fee pool / multiplier / one coin value / one stake) meet in the header<->contents maps
    let o = crate::runner::run_sharded(
        ctx,
        "perturbation-pairs",
        ctx.scale(200, 2000),
        || (crate::plan::arb_plan(&p), 0u8..5),
        |(plan, which), st, shard| {
            st.eval();
            let prof = profile();
            let mut a = plan.clone();
            // keep transactions fee-insensitive: multiplier class with value 0
            a.cfg.fee_mult = 3;
            let mut b = a.clone();
            match which {
                0 => b.cfg.fee_pool = a.cfg.fee_pool.wrapping_add(1),
                1 => b.cfg.fee_mult = 4,
                2 => b.cfg.val = a.cfg.val.wrapping_add(1),
                3 => b.cfg.stakes.push(crate::plan::StakeCfg { key: 1, start: 0, len: 1, syms: 3 }),
                _ => {
                    if let Some(crate::plan::Step::Batch(t, _)) = b.steps.iter_mut().find(|s| matches!(s, crate::plan::Step::Batch(_, _))) {
                        let extra = t[0].clone();
                        t.push(extra);
                    }
                }
            }
            st.class(["pair-fee-pool+1", "pair-multiplier-0-vs-1", "pair-genesis-value", "pair-extra-stake", "pair-extra-transaction"][*which as usize]);
            crate::plan::run_plan(&a, &prof, &mut C07::default(), st, shard)?;
            crate::plan::run_plan(&b, &prof, &mut C07::default(), st, shard)
        },
    );
    out.absorb(o);
    let o = legacy_window_phase(ctx, if ctx.thorough() { 4000 } else { 480 });
    out.absorb(o);
    let rule = "Generated histories on Custom08 (dense transaction commitment), Custom02, Testnet and Mainnet (sparse commitment), plus perturbation pairs: the same plan run under two configurations differing in one scalar (genesis fee pool +1, multiplier 0 vs 1 with fee-free traffic, genesis coin value class, one extra stake, one extra transaction). Oracle per sealed state: (a) height = parent+1, previous = hash(parent header), constant network id, every honest ancestor header present in the history tree at its height and none at the state's own height; (b) coin, pool and history roots in the header equal the roots of trees rebuilt in a fresh store from the iterated contents in another order; stakes_hash re-derived from raw_stakes(); transactions_hash re-derived by the harness's own implementations of the sparse (hash_nosigs -> tx) and dense (sorted hash_nosigs||hash(tx)) commitments, with transaction_sorted_posn agreeing with the dense order; (c) across all sealed states a shard sees, header hash <-> digest of the full contents is a bijection (different contents never share a header; equal contents never have two headers); (b') the coin root also equals the root over the decoded coins alone, plus - only once TIP-906 is active - the counts they imply; a legacy-window phase runs mainnet histories between heights 180 000 and 830 000 (swaps, legacy deposits, withdrawals) in child processes, because the legacy deposit rule can abort the process inside novasmt in checked builds (a child that dies is counted, not reported); (d) every coin, pool and ancestor header has a membership proof, and 8 absent coins and 8 future heights a non-membership proof, that verify against the root in the header; every transaction has a dense (TIP-908) or sparse proof. Non-trivial = sealed state with >=3 coins, >=1 transaction, height >=2; distinct by header hash.".to_string();
    (out, rule, None)
}

pub fn replay(case: &serde_json::Value) -> Check {
    if let Some(lp) = case.get("legacy_plan") {
        return super::hist::replay_history(lp, &legacy_profile(), C07::default());
    }
    if case.get("cfg").is_some() {
        return super::hist::replay_history(case, &profile(), C07::default());
    }
    if let Ok((plan, which)) = serde_json::from_value::<(crate::plan::Plan, u8)>(case.clone()) {
        let _ = which;
        let mut st = Stats::default();
        return crate::plan::run_plan(&plan, &profile(), &mut C07::default(), &mut st, 200);
    }
    Err(crate::evidence::Violation::new("replay-format", "cannot interpret replay case"))
}

pub fn legacy_profile() -> Profile {
    let mut p = Profile::general();
    p.net_w = [0, 0, 0, 100, 0, 0, 0, 0, 0];
    p.kind_w = [16, 0, 28, 24, 30, 0, 2, 0, 0];
    p.p_mut = 4;
    p.p_odd_spelling = 0;
    p.max_txs = 4;
    p.max_steps = 32;
    p.mainnet_like_legacy = false;
    p.start_in_legacy_window = true;
    p.mempool = false;
    p
}

/// child side: run one plan in the legacy window and print the violation (or null) as JSON
pub fn legacy_child(plan: &crate::plan::Plan) -> serde_json::Value {
    let mut st = Stats::default();
    match crate::plan::run_plan(plan, &legacy_profile(), &mut C07::default(), &mut st, 212) {
        Ok(()) => serde_json::json!({"violation": null, "withdrawals": st.classes.get("legacy-window-withdrawal-settled").copied().unwrap_or(0)}),
        Err(v) => serde_json::json!({"violation": {"signature": v.signature, "detail": v.detail}}),
    }
}

/// Mainnet between TIP-902 and TIP-906 can only be populated with liquidity tokens through the legacy deposit
/// rule, whose removal of an absent key can abort the process inside novasmt in checked builds. Those histories
/// therefore run in child processes: a child that dies is counted, not reported.
pub fn legacy_window_phase(ctx: &Ctx, n_plans: usize) -> Outcome {
    use proptest::strategy::{Strategy, ValueTree};
    use proptest::test_runner::{Config, RngAlgorithm, TestRng, TestRunner};
    let mut out = Outcome::empty();
    let seed = blake3::hash(format!("c07-legacy-window-{}", ctx.seed).as_bytes());
    let mut runner = TestRunner::new_with_rng(Config::default(), TestRng::from_seed(RngAlgorithm::ChaCha, seed.as_bytes()));
    let prof = legacy_profile();
    let exe = match std::env::current_exe() {
        Ok(e) => e,
        Err(_) => return out,
    };
    let dir = crate::evidence::verif_root().join("replays").join("C07").join("legacy-window-tmp");
    let _ = std::fs::create_dir_all(&dir);
    let plans: Vec<crate::plan::Plan> = (0..n_plans).filter_map(|_| crate::plan::arb_plan(&prof).new_tree(&mut runner).ok().map(|t| t.current())).collect();
    let results: Vec<(usize, Option<serde_json::Value>)> = {
        use std::sync::Mutex;
        let next = Mutex::new(0usize);
        let res = Mutex::new(vec![]);
        std::thread::scope(|sc| {
            for _ in 0..ctx.shards.min(16) {
                sc.spawn(|| loop {
                    let i = {
                        let mut g = next.lock().unwrap();
                        let i = *g;
                        *g += 1;
                        i
                    };
                    if i >= plans.len() {
                        break;
                    }
                    let f = dir.join(format!("plan-{}.json", i));
                    if std::fs::write(&f, serde_json::to_vec(&plans[i]).unwrap()).is_err() {
                        continue;
                    }
                    let o = std::process::Command::new(&exe).arg("legacy-plan").arg("C07").arg(&f).output();
                    let v = match o {
                        Ok(o) if o.status.success() => serde_json::from_slice::<serde_json::Value>(&o.stdout).ok(),
                        _ => None,
                    };
                    let _ = std::fs::remove_file(&f);
                    res.lock().unwrap().push((i, v));
                });
            }
        });
        res.into_inner().unwrap()
    };
    for (i, v) in results {
        out.stats.evals += 1;
        match v {
            None => out.stats.exclude("legacy-window-child-died-or-failed"),
            Some(j) => {
                if let Some(viol) = j.get("violation").filter(|x| !x.is_null()) {
                    let sig = viol["signature"].as_str().unwrap_or("legacy-window").to_string();
                    let detail = viol["detail"].as_str().unwrap_or("").to_string();
                    let vv = crate::evidence::Violation::new(sig, detail);
                    if ctx.known.matches("C07", &vv.signature).is_some() {
                        *out.stats.known_hits.entry(vv.signature.clone()).or_insert(0) += 1;
                    } else if out.violations.is_empty() {
                        let body = serde_json::json!({"property": "C07", "seed": ctx.seed, "tier": ctx.tier, "phase": "legacy-window", "signature": vv.signature, "detail": vv.detail, "case": {"legacy_plan": plans[i]}});
                        let p = crate::evidence::write_replay("C07", &vv.signature, &body);
                        out.violations.push((vv, p));
                    }
                } else {
                    out.stats.class("legacy-window-history-clean");
                    if j["withdrawals"].as_u64().unwrap_or(0) > 0 {
                        out.stats.class("legacy-window-history-with-settled-withdrawal");
                        out.stats.nontrivial(h64(format!("legacy-{}-{}", ctx.seed, i).as_bytes()));
                    }
                }
            }
        }
    }
    let _ = std::fs::remove_dir_all(&dir);
    out
}
