//! C09 — validation is total.
use crate::evidence::{Check, Stats, Violation};
use crate::plan::{BatchObs, Monitor, Profile, SealObs};
use crate::runner::{Ctx, Outcome};
use crate::util::{h64, PanicInfo};
use crate::world::{Outcome as O, World};

#[derive(Default)]
pub struct C09 {
    hostile_reached: Vec<String>,
    survived: bool,
}

impl Monitor for C09 {
    fn on_panic(&mut self, _w: &World, site: &str, info: &PanicInfo, _st: &mut Stats) -> Check {
        Err(Violation::new(
            info.signature(),
            format!("{} panicked at {}: {} (via {:?})", site, info.location, info.message.chars().take(300).collect::<String>(), info.callers),
        ))
    }
    fn on_batch(&mut self, _w: &World, ob: &BatchObs, st: &mut Stats) -> Check {
        for m in ob.metas {
            if let Some(mu) = m.mutation {
                self.hostile_reached.push(mu.to_string());
                st.class(&format!("mutation-{}", mu));
            }
            if let Some(s) = m.spelling {
                if s != "canonical" {
                    self.hostile_reached.push(s.to_string());
                    st.class(&format!("spelling-{}", s));
                }
            }
        }
        match ob.outcome {
            O::Rejected(_) => {
                self.survived = true;
                st.class("batch-rejected")
            }
            O::Ok(()) => st.class("batch-accepted"),
            O::Panicked(_) => {}
        }
        Ok(())
    }
    fn on_seal(&mut self, _w: &World, ob: &SealObs, st: &mut Stats) -> Check {
        self.survived = true;
        // confirm() with hostile consensus proofs: wrong-length and garbage signatures, keys that are not stakers
        {
            use melstructs::ConsensusProof;
            let hh = ob.sealed.header().hash();
            let mut proofs: Vec<ConsensusProof> = vec![ConsensusProof::new()];
            let mut p1 = ConsensusProof::new();
            p1.insert(crate::world::pk(0), bytes::Bytes::new());
            p1.insert(crate::world::pk(1), vec![0u8; 63].into());
            p1.insert(tmelcrypt::Ed25519PK([0xff; 32]), vec![0xffu8; 64].into());
            proofs.push(p1);
            let mut p2 = ConsensusProof::new();
            p2.insert(tmelcrypt::Ed25519PK([0; 32]), vec![0u8; 64].into());
            p2.insert(crate::world::pk(2), crate::world::sk(2).sign(&hh.0).into());
            p2.insert(crate::world::pk(3), vec![7u8; 4096].into());
            proofs.push(p2);
            for p in proofs {
                if let Err(pi) = crate::util::catch(|| ob.sealed.confirm(p).is_some()) {
                    return Err(Violation::new(pi.signature(), format!("confirm panicked at {}: {}", pi.location, pi.message)));
                }
            }
            st.class("confirm-with-hostile-proofs");
        }
        if ob.trace.unspecified.is_some() {
            st.class("degenerate-pool-request-sealed");
            self.hostile_reached.push("degenerate-pool-request".into());
        }
        Ok(())
    }
    fn on_end(&mut self, _w: &World, st: &mut Stats) -> Check {
        if !self.hostile_reached.is_empty() && self.survived {
            self.hostile_reached.sort();
            self.hostile_reached.dedup();
            st.nontrivial(h64(self.hostile_reached.join("|").as_bytes()) ^ (st.evals << 20));
        }
        Ok(())
    }
}

pub fn profile() -> Profile {
    let mut p = Profile::general();
    p.p_mut = 110;
    p.hostile = true;
    p.p_odd_spelling = 90;
    p.kind_w = [30, 10, 18, 14, 12, 6, 8, 0, 3];
    p.grandfathered_faucet = true;
    p.p_teleport = 1;
    p.kind_w[7] = 4;
    p.low_dosc_start = true;
    p
}

pub fn run(ctx: &Ctx) -> (Outcome, String, Option<bool>) {
    let mut p = profile();
    if ctx.thorough() {
        p.max_steps = 30;
        p.max_txs = 10;
    }
    let mut out = super::hist::run_histories(ctx, "hostile-histories", p, ctx.scale(3000, 30000), C09::default);
    // single transactions of every shape (sizes, covenant weights up to saturation, every multiplier class)
    let o = crate::runner::run_sharded(
        ctx,
        "transaction-shapes",
        ctx.scale(500, 6000),
        super::c05::arb_shape,
        |s, st, shard| {
            let r = super::c05::check_shape_with(s, st, shard, true);
            if r.is_ok() {
                st.nontrivial(h64(format!("{:?}", s).as_bytes()));
            }
            r
        },
    );
    out.absorb(o);
    let rule = "Generated histories in adversarial mode: ~43% of transactions mutated (off-by-one values, repeated/missing/spent inputs, dropped or garbage covenants, corrupted or foreign signatures, MAX_COINVAL+1, 256 outputs, fee-1, swapped kind, random data, duplicates, empty transactions, destroyed outputs), zero-valued and maximal pool requests, pool keys in 6 alternative spellings (~35% of requests), every proposer delta class, every fee-multiplier class, undecodable stake documents. Oracle: every call of apply_tx_batch, seal, header, next_unsealed, to_block/from_block runs under catch_unwind (engine built with overflow checks and debug assertions); any panic is a violation keyed by (panic site, message class); a watchdog turns a hang into exit 2. A second phase applies single faucet transactions of every shape (0-255 outputs, data to 4 KiB, 0-4 covenants whose weights range from 1 to saturation through up to 10 nested 65535-iteration loops, multipliers 0..2^100) and treats any panic as a violation. Non-trivial = a case in which >=1 hostile shape reached the STF and the call returned a rejection or sealing survived; distinct by the set of hostile shapes in the case.".to_string();
    (out, rule, None)
}

pub fn replay(case: &serde_json::Value) -> Check {
    if let Ok(s) = serde_json::from_value::<super::c05::Shape>(case.clone()) {
        let mut st = Stats::default();
        return super::c05::check_shape_with(&s, &mut st, 200, true);
    }
    super::hist::replay_history(case, &profile(), C09::default())
}
