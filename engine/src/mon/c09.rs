//! C09 — validation is total.
use crate::evidence::{Check, Stats, Violation};
use crate::plan::{BatchObs, Monitor, Profile, SealObs};
use crate::runner::{Ctx, Outcome};
use crate::util::{h64, PanicInfo};
use crate::world::{Outcome as O, World};

#[derive(Default)]
pub struct C09 {
    hostile_reached: Vec<String>,
    survived: bool,
}

impl Monitor for C09 {
    fn on_panic(&mut self, _w: &World, site: &str, info: &PanicInfo, _st: &mut Stats) -> Check {
        Err(Violation::new(
            info.signature(),
            format!("{} panicked at {}: {} (via {:?})", site, info.location, info.message.chars().take(300).collect::<String>(), info.callers),
        ))
    }
    fn on_batch(&mut self, _w: &World, ob: &BatchObs, st: &mut Stats) -> Check {
        for m in ob.metas {
            if let Some(mu) = m.mutation {
                self.hostile_reached.push(mu.to_string());
                st.class(&format!("mutation-{}", mu));
            }
            if let Some(s) = m.spelling {
                if s != "canonical" {
                    self.hostile_reached.push(s.to_string());
                    st.class(&format!("spelling-{}", s));
                }
            }
        }
        match ob.outcome {
            O::Rejected(_) => {
                self.survived = true;
                st.class("batch-rejected")
            }
            O::Ok(()) => st.class("batch-accepted"),
            O::Panicked(_) => {}
        }
        Ok(())
    }
    fn on_seal(&mut self, _w: &World, ob: &SealObs, st: &mut Stats) -> Check {
        self.survived = true;
        // confirm() with hostile consensus proofs: wrong-length and garbage signatures, keys that are not stakers
        {
            use melstructs::ConsensusProof;
            let hh = ob.sealed.header().hash();
            let mut proofs: Vec<ConsensusProof> = vec![ConsensusProof::new()];
            let mut p1 = ConsensusProof::new();
            p1.insert(crate::world::pk(0), bytes::Bytes::new());
            p1.insert(crate::world::pk(1), vec![0u8; 63].into());
            p1.insert(tmelcrypt::Ed25519PK([0xff; 32]), vec![0xffu8; 64].into());
            proofs.push(p1);
            let mut p2 = ConsensusProof::new();
            p2.insert(tmelcrypt::Ed25519PK([0; 32]), vec![0u8; 64].into());
            p2.insert(crate::world::pk(2), crate::world::sk(2).sign(&hh.0).into());
            p2.insert(crate::world::pk(3), vec![7u8; 4096].into());
            proofs.push(p2);
            for p in proofs {
                if let Err(pi) = crate::util::catch(|| ob.sealed.confirm(p).is_some()) {
                    return Err(Violation::new(pi.signature(), format!("confirm panicked at {}: {}", pi.location, pi.message)));
                }
            }
            st.class("confirm-with-hostile-proofs");
        }
        // hostile blocks offered to the parent of the block just sealed: the honest block with extreme header
        // fields, hostile transactions slipped in, transactions dropped, extreme proposer actions
        if let Some(parent) = ob.parent {
            use melstructs::{CoinData, CoinValue, Denom, ProposerAction, Transaction, TxKind};
            let honest = ob.sealed.to_block();
            let salt = h64(&honest.header.hash().0) as usize;
            let junk_out = |d: Denom, v: u128| CoinData { covhash: crate::world::CovSpec::True.hash(), value: CoinValue(v), denom: d, additional_data: vec![0u8; salt % 40].into() };
            let mut variants = vec![];
            for k in 0..4usize {
                let mut b = honest.clone();
                match (salt + k) % 10 {
                    0 => b.header.height = melstructs::BlockHeight(u64::MAX),
                    1 => b.header.fee_multiplier = u128::MAX,
                    2 => {
                        b.header.fee_pool = CoinValue(u128::MAX);
                        b.header.dosc_speed = u128::MAX
                    }
                    3 => b.proposer_action = Some(ProposerAction { fee_multiplier_delta: if salt % 2 == 0 { -128 } else { 127 }, reward_dest: melstructs::Address(Default::default()) }),
                    4 => {
                        let mut t = Transaction::new(TxKind::Faucet);
                        for _ in 0..255 {
                            t.outputs.push(junk_out(Denom::Mel, 1 << 120));
                        }
                        t.fee = CoinValue(1 << 120);
                        b.transactions.insert(t);
                    }
                    5 => {
                        for kind in [TxKind::Swap, TxKind::LiqDeposit, TxKind::LiqWithdraw, TxKind::DoscMint, TxKind::Stake, TxKind::Normal] {
                            let mut t = Transaction::new(kind);
                            t.data = vec![(salt % 251) as u8; salt % 70].into();
                            b.transactions.insert(t);
                        }
                    }
                    6 => {
                        let mut t = Transaction::new(TxKind::Faucet);
                        t.outputs = vec![junk_out(Denom::NewCustom, 0), junk_out(Denom::Sym, u128::MAX), junk_out(Denom::Erg, 1)];
                        t.kind = if salt % 2 == 0 { TxKind::LiqDeposit } else { TxKind::Faucet };
                        t.data = melstructs::PoolKey::new(Denom::Mel, Denom::Sym).to_bytes().to_vec().into();
                        t.fee = CoinValue(u128::MAX);
                        b.transactions.insert(t);
                    }
                    7 => b.transactions.clear(),
                    8 => {
                        b.header.network = if b.header.network == melstructs::NetID::Mainnet { melstructs::NetID::Testnet } else { melstructs::NetID::Mainnet };
                        b.header.height = melstructs::BlockHeight(b.header.height.0.wrapping_sub(2));
                    }
                    _ => {
                        // every transaction twice over with a twist: same body, signatures dropped
                        let extra: Vec<Transaction> = b.transactions.iter().map(|t| { let mut t = t.clone(); t.sigs.clear(); t }).collect();
                        for t in extra {
                            b.transactions.insert(t);
                        }
                    }
                }
                variants.push(((salt + k) % 10, b));
            }
            for (kind, b) in variants {
                match crate::util::catch(|| parent.apply_block(&b).is_ok()) {
                    Ok(_) => st.class("hostile-block-handled"),
                    Err(pi) => {
                        return Err(Violation::new(pi.signature(), format!("apply_block panicked on hostile block variant {} at {}: {}", kind, pi.location, pi.message.chars().take(300).collect::<String>())));
                    }
                }
            }
            self.hostile_reached.push("hostile-block".into());
        }
        if ob.trace.unspecified.is_some() {
            st.class("degenerate-pool-request-sealed");
            self.hostile_reached.push("degenerate-pool-request".into());
        }
        Ok(())
    }
    fn on_end(&mut self, _w: &World, st: &mut Stats) -> Check {
        if !self.hostile_reached.is_empty() && self.survived {
            self.hostile_reached.sort();
            self.hostile_reached.dedup();
            st.nontrivial(h64(self.hostile_reached.join("|").as_bytes()) ^ (st.evals << 20));
        }
        Ok(())
    }
}

pub fn profile() -> Profile {
    let mut p = Profile::general();
    p.p_mut = 110;
    p.hostile = true;
    p.p_odd_spelling = 90;
    p.kind_w = [30, 10, 18, 14, 12, 6, 8, 0, 3];
    p.grandfathered_faucet = true;
    p.p_teleport = 1;
    p.kind_w[7] = 4;
    p.low_dosc_start = true;
    p
}

/// Hostile liquidity histories by construction: faucets (which, in this profile, also forge liquidity tokens of
/// existing pools in amounts around what the pool has issued), then blocks dense in withdrawals, with deposits, swaps
/// and more faucets mixed in - several requests per pool per block.
pub fn arb_hostile_liquidity_plan(p: &Profile) -> impl proptest::strategy::Strategy<Value = crate::plan::Plan> {
    use crate::plan::{arb_cfg, arb_tx, kind_byte, Step};
    use proptest::prelude::*;
    let p2 = p.clone();
    (
        arb_cfg(),
        proptest::collection::vec(arb_tx(1, 4), 2..5),
        proptest::collection::vec((proptest::collection::vec((arb_tx(3, 3), 0u8..20), 2..7), any::<u32>(), proptest::option::of((any::<i8>(), any::<u8>()))), 2..7),
    )
        .prop_map(move |(cfg, faucets, rounds)| {
            let mut steps = vec![Step::Seal(None)];
            let mut first = vec![];
            for mut t in faucets {
                t.kind = kind_byte(&p2, 1, t.kind);
                t.mutation = 255;
                for o in t.outs.iter_mut() {
                    if o.weight % 3 != 0 {
                        o.denom = (o.denom / 5).min(50) * 5 + 4; // forge
                    }
                }
                first.push(t);
            }
            steps.push(Step::Batch(first, 0));
            // histories that the profile fast-forwards to three blocks below the testnet's activation height (val % 4 == 1)
            // are kept short and pointed: pools are created in the first block, redeemed in the second, and the
            // activation is crossed with whatever that leaves behind
            let pointed = cfg.val % 4 == 1;
            let rounds: Vec<_> = if pointed { rounds.into_iter().take(2).collect() } else { rounds };
            for (ri, (txs, order, action)) in rounds.into_iter().enumerate() {
                let mut b = vec![];
                for (mut t, what) in txs {
                    let k = match what {
                        _ if pointed && ri == 0 => 3,
                        _ if pointed => 4,
                        0..=9 => 4,
                        10..=12 => 1,
                        13..=15 => 3,
                        16 | 17 => 2,
                        _ => 0,
                    };
                    t.kind = kind_byte(&p2, k, t.kind);
                    if k == 4 {
                        t.mutation = 255;
                    }
                    b.push(t);
                }
                steps.push(Step::Batch(b, order));
                steps.push(Step::Seal(action));
            }
            // a few empty blocks at the end (a history warped to just below an activation height crosses it)
            for _ in 0..4 {
                steps.push(Step::Seal(None));
            }
            crate::plan::Plan { cfg, steps }
        })
}

/// Wide transactions: one transaction consolidating 250-300 existing coins, most of them under one covenant, with one
/// or two coins under other covenants placed around position 255/256 (where the covenant environment's 8-bit
/// spender index ends). Built through two funding transactions of up to 255 outputs; applied, sealed, and the block
/// offered back to its parent. Only totality is judged here.
#[derive(Clone, Debug, serde::Serialize, serde::Deserialize)]
pub struct WideCase {
    pub n_plain: u16,
    pub odd: Vec<(u16, u8)>,
    pub sig_slot_wrap: bool,
    pub net: u8,
}

pub fn arb_wide() -> impl proptest::strategy::Strategy<Value = WideCase> {
    use proptest::prelude::*;
    (
        prop_oneof![Just(253u16), Just(254), Just(255), Just(256), Just(257), 250u16..300],
        proptest::collection::vec((prop_oneof![Just(0u16), Just(254), Just(255), Just(256), Just(257), Just(299), 0u16..300], any::<u8>()), 1..3),
        any::<bool>(),
        any::<u8>(),
    )
        .prop_map(|(n_plain, odd, sig_slot_wrap, net)| WideCase { n_plain, odd, sig_slot_wrap, net })
}

pub fn check_wide(c: &WideCase, st: &mut Stats, shard: usize) -> Check {
    use crate::world::{CovSpec, GenesisSpec};
    use melstructs::{CoinData, CoinID, CoinValue, Denom, NetID, Transaction, TxKind};
    st.eval();
    let t = CovSpec::True;
    let out = |cov: &CovSpec, v: u128| CoinData { covhash: cov.hash(), value: CoinValue(v), denom: Denom::Mel, additional_data: Default::default() };
    let net = [NetID::Custom02, NetID::Custom08, NetID::Testnet][c.net as usize % 3];
    let g = GenesisSpec { net, init: out(&t, 1 << 80), init_cov: t.clone(), fee_pool: 0, fee_mult: 100, stakes: vec![] };
    let mut w = World::new(g, shard);
    let n_plain = (c.n_plain as usize).clamp(2, 300);
    let unit = 1u128 << 30;
    // funding: F1 (254 plain coins + change), F2 (the rest of the plain coins, the odd ones, change)
    let mut f1 = Transaction::new(TxKind::Normal);
    f1.inputs = vec![CoinID::zero_zero()];
    f1.covenants = vec![t.bytes().into()];
    let first = n_plain.min(254);
    for _ in 0..first {
        f1.outputs.push(out(&t, unit));
    }
    let fee = 1u128 << 40;
    let change1 = (1u128 << 80) - unit * first as u128 - fee;
    f1.outputs.push(out(&t, change1));
    f1.fee = CoinValue(fee);
    let h1 = f1.hash_nosigs();
    let mut f2 = Transaction::new(TxKind::Normal);
    f2.inputs = vec![CoinID::new(h1, first as u8)];
    f2.covenants = vec![t.bytes().into()];
    let rest = n_plain - first;
    for _ in 0..rest {
        f2.outputs.push(out(&t, unit));
    }
    let odd_specs: Vec<CovSpec> = c.odd.iter().map(|(_, sel)| match sel % 4 {
        0 => CovSpec::SigNew((*sel / 4) as usize),
        1 => CovSpec::SigLegacy((*sel / 4) as usize),
        2 => CovSpec::HeightAbove(0),
        _ => CovSpec::SigNew(((*sel / 4) as usize) + 1),
    }).collect();
    for sp in odd_specs.iter() {
        f2.outputs.push(out(sp, unit));
    }
    let change2 = change1 - unit * (rest + odd_specs.len()) as u128 - fee;
    f2.outputs.push(out(&t, change2));
    f2.fee = CoinValue(fee);
    let h2 = f2.hash_nosigs();
    match w.apply_batch(&[f1.clone(), f2.clone()]) {
        O::Ok(()) => {}
        O::Rejected(_) => {
            st.exclude("wide-funding-rejected");
            return Ok(());
        }
        O::Panicked(p) => return Err(Violation::new(p.signature(), format!("funding a wide transaction panicked at {}: {}", p.location, p.message))),
    }
    let parent = match w.seal(None) {
        O::Ok(s) => s,
        O::Panicked(p) => return Err(Violation::new(p.signature(), format!("seal panicked at {}: {}", p.location, p.message))),
        _ => return Ok(()),
    };
    // the wide spend
    let mut ins: Vec<(CoinID, Option<usize>)> = vec![];
    for i in 0..first {
        ins.push((CoinID::new(h1, i as u8), None));
    }
    for i in 0..rest {
        ins.push((CoinID::new(h2, i as u8), None));
    }
    for (j, (pos, _)) in c.odd.iter().enumerate() {
        let at = (*pos as usize).min(ins.len());
        ins.insert(at, (CoinID::new(h2, (rest + j) as u8), Some(j)));
    }
    ins.push((CoinID::new(h2, (rest + odd_specs.len()) as u8), None));
    let mut tx = Transaction::new(TxKind::Normal);
    tx.inputs = ins.iter().map(|x| x.0).collect();
    let mut covs: Vec<Vec<u8>> = vec![t.bytes()];
    for sp in odd_specs.iter() {
        if !covs.contains(&sp.bytes()) {
            covs.push(sp.bytes());
        }
    }
    tx.covenants = covs.into_iter().map(|b| b.into()).collect();
    let total = unit * (n_plain + odd_specs.len()) as u128 + change2;
    tx.fee = CoinValue(fee);
    tx.outputs.push(out(&t, total - fee));
    // signatures where the standard covenants look for them: slot 0 (legacy) or the input's position (new) - the
    // latter either literally or modulo 256
    let mut need: Vec<(usize, usize)> = vec![];
    for (pos, (_, j)) in ins.iter().enumerate() {
        if let Some(j) = j {
            match &odd_specs[*j] {
                CovSpec::SigLegacy(k) => need.push((0, *k)),
                CovSpec::SigNew(k) => need.push((if c.sig_slot_wrap { pos % 256 } else { pos }, *k)),
                _ => {}
            }
        }
    }
    if let Some(m) = need.iter().map(|x| x.0).max() {
        tx.sigs = vec![bytes::Bytes::new(); m + 1];
        let hh = tx.hash_nosigs();
        for (slot, k) in need.iter() {
            tx.sigs[*slot] = crate::world::sk(*k).sign(&hh.0 .0).into();
        }
    }
    let n_in = tx.inputs.len();
    st.class(if n_in > 256 { "wide-more-than-256-inputs" } else if n_in == 256 { "wide-256-inputs" } else { "wide-up-to-255-inputs" });
    if ins.iter().enumerate().any(|(p, x)| p >= 256 && x.1.is_some()) {
        st.class("wide-odd-covenant-at-position-256-or-later");
    }
    let r = w.apply_batch(std::slice::from_ref(&tx));
    match &r {
        O::Ok(()) => st.class("wide-accepted"),
        O::Rejected(_) => st.class("wide-rejected"),
        O::Panicked(p) => return Err(Violation::new(p.signature(), format!("a transaction with {} inputs (other covenants at {:?}) panicked at {}: {}", n_in, c.odd, p.location, p.message.chars().take(200).collect::<String>()))),
    }
    match w.seal(None) {
        O::Ok(s) => {
            let blk = s.to_block();
            if let Err(p) = crate::util::catch(|| parent.apply_block(&blk).is_ok()) {
                return Err(Violation::new(p.signature(), format!("apply_block of a block holding a {}-input transaction panicked at {}: {}", n_in, p.location, p.message)));
            }
        }
        O::Panicked(p) => return Err(Violation::new(p.signature(), format!("seal panicked at {}: {}", p.location, p.message))),
        _ => {}
    }
    st.nontrivial(h64(format!("{:?}", c).as_bytes()));
    Ok(())
}


/// The pre-activation liquidity phase: testnet histories below the height (500) at which TIP-902/906 switch on, with
/// the legacy deposit rule *allowed* (every other phase keeps deposits out of mainnet/testnet below 978 392): pools -
/// also the later built-in ERG/SYM pool, which anybody can create before TIP-902 - are created by deposits, redeemed,
/// and carried across the activation height. The legacy rule can abort the process inside novasmt in checked builds,
/// so these histories run in child processes: a child that dies is counted, a panic the child catches is reported.
pub fn profile4() -> Profile {
    let mut p = profile3();
    p.mainnet_like_legacy = false;
    p.net_w = [0, 0, 100, 0, 0, 0, 0, 0, 0];
    p
}

pub fn pre_activation_child(plan: &crate::plan::Plan) -> serde_json::Value {
    let mut st = Stats::default();
    let r = crate::plan::run_plan(plan, &profile4(), &mut C09::default(), &mut st, 212);
    let classes: std::collections::BTreeMap<String, u64> = st.classes.iter().map(|(k, v)| (k.clone(), *v)).collect();
    match r {
        Ok(()) => serde_json::json!({"violation": null, "classes": classes}),
        Err(v) => serde_json::json!({"violation": {"signature": v.signature, "detail": v.detail}, "classes": classes}),
    }
}

pub fn pre_activation_phase(ctx: &Ctx, n_plans: usize) -> Outcome {
    use proptest::strategy::{Strategy, ValueTree};
    use proptest::test_runner::{Config, RngAlgorithm, TestRng, TestRunner};
    let mut out = Outcome::empty();
    let seed = blake3::hash(format!("c09-pre-activation-{}", ctx.seed).as_bytes());
    let mut runner = TestRunner::new_with_rng(Config::default(), TestRng::from_seed(RngAlgorithm::ChaCha, seed.as_bytes()));
    let prof = profile4();
    let exe = match std::env::current_exe() {
        Ok(e) => e,
        Err(_) => return out,
    };
    let dir = crate::evidence::verif_root().join("replays").join("C09").join("pre-activation-tmp");
    let _ = std::fs::create_dir_all(&dir);
    let plans: Vec<crate::plan::Plan> = (0..n_plans).filter_map(|_| arb_hostile_liquidity_plan(&prof).new_tree(&mut runner).ok().map(|t| t.current())).collect();
    let results: Vec<(usize, Option<serde_json::Value>)> = {
        use std::sync::Mutex;
        let next = Mutex::new(0usize);
        let res = Mutex::new(vec![]);
        std::thread::scope(|sc| {
            for _ in 0..ctx.shards.min(16) {
                sc.spawn(|| loop {
                    let i = {
                        let mut g = next.lock().unwrap();
                        let i = *g;
                        *g += 1;
                        i
                    };
                    if i >= plans.len() {
                        break;
                    }
                    let f = dir.join(format!("plan-{}.json", i));
                    if std::fs::write(&f, serde_json::to_vec(&plans[i]).unwrap()).is_err() {
                        continue;
                    }
                    let o = std::process::Command::new(&exe).arg("legacy-plan").arg("C09").arg(&f).output();
                    let v = match o {
                        Ok(o) if o.status.success() => serde_json::from_slice::<serde_json::Value>(&o.stdout).ok(),
                        _ => None,
                    };
                    let _ = std::fs::remove_file(&f);
                    res.lock().unwrap().push((i, v));
                });
            }
        });
        let mut r = res.into_inner().unwrap();
        r.sort_by_key(|x| x.0);
        r
    };
    for (i, v) in results {
        out.stats.evals += 1;
        match v {
            None => out.stats.exclude("pre-activation-child-died-or-failed"),
            Some(j) => {
                if let Some(cl) = j.get("classes").and_then(|c| c.as_object()) {
                    for (k, n) in cl {
                        *out.stats.classes.entry(format!("pre-activation:{}", k)).or_insert(0) += n.as_u64().unwrap_or(0);
                    }
                }
                if let Some(viol) = j.get("violation").filter(|x| !x.is_null()) {
                    let sig = viol["signature"].as_str().unwrap_or("pre-activation").to_string();
                    let detail = viol["detail"].as_str().unwrap_or("").to_string();
                    let vv = Violation::new(sig, detail);
                    if ctx.known.matches("C09", &vv.signature).is_some() {
                        *out.stats.known_hits.entry(vv.signature.clone()).or_insert(0) += 1;
                    } else if out.violations.is_empty() {
                        let body = serde_json::json!({"property": "C09", "seed": ctx.seed, "tier": ctx.tier, "phase": "pre-activation", "signature": vv.signature, "detail": vv.detail, "case": {"pre_activation_plan": plans[i]}});
                        let p = crate::evidence::write_replay("C09", &vv.signature, &body);
                        out.violations.push((vv, p));
                    }
                } else {
                    out.stats.class("pre-activation-history-clean");
                    out.stats.nontrivial(h64(format!("pre-activation-{}-{}", ctx.seed, i).as_bytes()));
                }
            }
        }
    }
    let _ = std::fs::remove_dir_all(&dir);
    out
}

pub fn run(ctx: &Ctx) -> (Outcome, String, Option<bool>) {
    let mut p = profile();
    if ctx.thorough() {
        p.max_steps = 30;
        p.max_txs = 10;
    }
    // diagnostic knob (never set by the registered commands): run only the pre-activation phase
    if std::env::var("MV_ONLY_PHASE").ok().as_deref() == Some("pre-activation") {
        return (pre_activation_phase(ctx, if ctx.thorough() { 3000 } else { 320 }), "diagnostic run of one phase".into(), None);
    }
    let mut out = super::hist::run_histories(ctx, "hostile-histories", p, ctx.scale(3000, 30000), C09::default);
    {
        let p3 = profile3();
        let prof3 = p3.clone();
        out.absorb(crate::runner::run_sharded(
            ctx,
            "hostile-liquidity",
            ctx.scale(600, 8000),
            move || {
                use proptest::strategy::Strategy;
                arb_hostile_liquidity_plan(&prof3).prop_map(|p| super::hist::Phase2 { phase2: p })
            },
            |plan, st, shard| {
                st.eval();
                st.class("hostile-liquidity-history");
                crate::plan::run_plan(&plan.phase2, &p3, &mut C09::default(), st, shard)
            },
        ));
    }
    out.absorb(pre_activation_phase(ctx, if ctx.thorough() { 3000 } else { 320 }));
    out.absorb(crate::runner::run_sharded(ctx, "wide-transactions", ctx.scale(20, 300), arb_wide, |c, st, shard| check_wide(c, st, shard)));
    // single transactions of every shape (sizes, covenant weights up to saturation, every multiplier class)
    let o = crate::runner::run_sharded(
        ctx,
        "transaction-shapes",
        ctx.scale(500, 6000),
        super::c05::arb_shape,
        |s, st, shard| {
            let r = super::c05::check_shape_with(s, st, shard, true);
            if r.is_ok() {
                st.nontrivial(h64(format!("{:?}", s).as_bytes()));
            }
            r
        },
    );
    out.absorb(o);
    let rule = "Generated histories in adversarial mode: ~43% of transactions mutated (off-by-one values, repeated/missing/spent inputs, dropped or garbage covenants, corrupted or foreign signatures, MAX_COINVAL+1, 256 outputs, fee-1, swapped kind, random data, duplicates, empty transactions, destroyed outputs), zero-valued and maximal pool requests, pool keys in 6 alternative spellings (~35% of requests), every proposer delta class, every fee-multiplier class, undecodable stake documents. Oracle: every call of apply_tx_batch, seal, header, next_unsealed, to_block/from_block runs under catch_unwind (engine built with overflow checks and debug assertions); any panic is a violation keyed by (panic site, message class); a watchdog turns a hang into exit 2. A phase of hostile liquidity histories by construction: faucets that also forge liquidity tokens of existing pools (amounts equal to / 60% of / just above what the pool has issued), then blocks dense in withdrawals (several per pool per block), deposits, swaps and more faucets; every sealed block is also offered back to its parent in 4 of 10 hostile variants (extreme header fields, hostile or signature-less transactions slipped in, transactions dropped, extreme proposer actions) through apply_block. A phase of wide transactions consolidates 250-300 existing coins in one transaction with coins under other covenants placed around position 255/256 (signatures in the literal slot or modulo 256), then seals and re-validates the block. Another phase applies single faucet transactions of every shape (0-255 outputs, data to 4 KiB, 0-4 covenants whose weights range from 1 to saturation through up to 10 nested 65535-iteration loops, multipliers 0..2^100) and treats any panic as a violation. A pre-activation phase runs hostile liquidity histories on the testnet below height 500 with the legacy deposit rule allowed (pools, including the later built-in ERG/SYM pool, created by deposits, redeemed, and carried across the activation of TIP-902/906) in child processes: a panic the child catches is a violation, a child that dies in the legacy rule's novasmt abort is counted as excluded. Non-trivial = a case in which >=1 hostile shape reached the STF and the call returned a rejection or sealing survived; distinct by the set of hostile shapes in the case.".to_string();
    (out, rule, None)
}

pub fn replay(case: &serde_json::Value) -> Check {
    if let Some(lp) = case.get("pre_activation_plan") {
        return super::hist::replay_history(lp, &profile4(), C09::default());
    }
    if case.get("n_plain").is_some() {
        let c: WideCase = serde_json::from_value(case.clone()).map_err(|e| Violation::new("replay-format", e.to_string()))?;
        return check_wide(&c, &mut Stats::default(), 200);
    }
    if let Ok(s) = serde_json::from_value::<super::c05::Shape>(case.clone()) {
        let mut st = Stats::default();
        return super::c05::check_shape_with(&s, &mut st, 200, true);
    }
    super::hist::replay_two_phase(case, &profile(), &profile3(), C09::default())
}

/// The hostile-liquidity phase: a third of the histories on the testnet, most of those fast-forwarded to just below
/// the height at which TIP-902/906 switch on, so that pools created and emptied before are carried across it.
pub fn profile3() -> Profile {
    let mut p = profile();
    p.warp = true;
    p.seed_funds = true;
    p.nuggets = 12;
    p.net_w = [30, 15, 35, 0, 4, 4, 4, 4, 4];
    p
}
