//! C02 — exact UTXO transition; rejection is a no-op.
use crate::evidence::{Check, Stats};
use crate::plan::{child_before_parent, has_dependency, BatchObs, Monitor, Profile};
use crate::runner::{Ctx, Outcome};
use crate::util::h64;
use crate::viol;
use crate::world::{views_equal, Outcome as O, World};

#[derive(Default)]
pub struct C02;

fn shape(ob: &BatchObs) -> &'static str {
    if child_before_parent(ob.txs) {
        "child-first-batch"
    } else if has_dependency(ob.txs) {
        "dependent-batch"
    } else if ob.txs.len() > 1 {
        "batch"
    } else {
        "single"
    }
}

impl Monitor for C02 {
    fn on_batch(&mut self, _w: &World, ob: &BatchObs, st: &mut Stats) -> Check {
        let mut digest = ob.pre.coins_root.to_vec();
        for t in ob.txs {
            digest.extend_from_slice(&t.hash_nosigs().0 .0);
        }
        for m in ob.metas {
            st.class(&format!("tx-{}", m.kind));
            if let Some(mu) = m.mutation {
                st.class(&format!("mutation-{}", mu));
            }
        }
        match ob.outcome {
            O::Panicked(_) => Ok(()),
            O::Ok(()) => {
                st.class("accepted");
                if !ob.post.unknown_coin_entries.is_empty() {
                    viol!("unaccounted-coin-tree-entry", "coin tree holds entries that are neither coins nor counts: {:?}", &ob.post.unknown_coin_entries[..1]);
                }
                if ob.verdict.unspecified.is_some() {
                    st.exclude(&format!("unspecified: {}", ob.verdict.unspecified.unwrap()));
                } else if let Some(r) = &ob.verdict.reject {
                    viol!(
                        format!("accepted-despite-{}", r.class()),
                        "a {} of {} transaction(s) was accepted although {:?}; kinds {:?} mutations {:?}",
                        shape(ob),
                        ob.txs.len(),
                        r,
                        ob.txs.iter().map(|t| format!("{:?}", t.kind)).collect::<Vec<_>>(),
                        ob.metas.iter().map(|m| m.mutation).collect::<Vec<_>>()
                    );
                }
                if let Some(rp) = ob.ref_post {
                    if rp.coins != ob.post.coins {
                        let mut missing = vec![];
                        let mut extra = vec![];
                        let mut differ = vec![];
                        for (k, v) in rp.coins.iter() {
                            match ob.post.coins.get(k) {
                                None => missing.push(format!("{}", k)),
                                Some(x) if x != v => differ.push(format!("{}: expected {:?} got {:?}", k, v, x)),
                                _ => {}
                            }
                        }
                        for k in ob.post.coins.keys() {
                            if !rp.coins.contains_key(k) {
                                extra.push(format!("{}", k));
                            }
                        }
                        let kind = if !extra.is_empty() {
                            "spent-or-foreign-coin-present"
                        } else if !missing.is_empty() {
                            "coin-lost"
                        } else {
                            "coin-data-wrong"
                        };
                        viol!(
                            format!("coin-set-{}-after-{}", kind, shape(ob)),
                            "after an accepted {} of {} tx: coins that should not exist {:?}; missing {:?}; wrong {:?}",
                            shape(ob),
                            ob.txs.len(),
                            extra,
                            missing,
                            differ
                        );
                    }
                }
                if ob.txs.len() >= 2 && has_dependency(ob.txs) {
                    st.nontrivial(h64(&digest));
                    st.class(if child_before_parent(ob.txs) { "accepted-dependent-child-first" } else { "accepted-dependent-parent-first" });
                }
                Ok(())
            }
            O::Rejected(e) => {
                st.class("rejected");
                if let Some(rv) = ob.rejected_view {
                    if let Err(what) = views_equal(ob.pre_view, rv) {
                        viol!("rejection-not-a-noop", "a batch was rejected ({}) but the state object changed: {}", e, what);
                    }
                }
                if let Err(what) = views_equal(ob.pre_view, ob.post_view) {
                    viol!("rejection-not-a-noop", "a batch was rejected ({}) but the state changed: {}", e, what);
                }
                match &ob.verdict.reject {
                    Some(r) => {
                        st.class(&format!("rejected-ref-{}", r.class()));
                        if r.class() != "malformed" {
                            st.nontrivial(h64(&digest));
                        }
                    }
                    None => {
                        // over-rejection is not a C02 violation; it is shown in the evidence
                        st.class(if ob.verdict.unspecified.is_some() { "rejected-unspecified" } else { "rejected-though-reference-accepts" });
                        if ob.metas.iter().all(|m| m.valid_by_construction) && ob.verdict.unspecified.is_none() {
                            st.class("rejected-valid-by-construction");
                            if std::env::var("MV_DEBUG_OVERREJECT").is_ok() {
                                eprintln!("over-rejection: {} :: {:?}", e, ob.txs);
                            }
                        }
                    }
                }
                Ok(())
            }
        }
    }
}

pub fn profile() -> Profile {
    let mut p = Profile::general();
    p.past_legacy_half = true;
    p.p_mut = 60;
    p.max_txs = 7;
    p.kind_w[7] = 4;
    p.low_dosc_start = true;
    p
}

pub fn run(ctx: &Ctx) -> (Outcome, String, Option<bool>) {
    let mut p = profile();
    if ctx.thorough() {
        p.max_steps = 30;
        p.max_txs = 14;
    }
    let mut out = super::hist::run_histories(ctx, "histories", p, ctx.scale(2000, 20000), C02::default);
    out.absorb(super::hist::run_sampled_heights(ctx, &profile(), ctx.scale(300, 3000), C02::default));
    let rule = "Also: the first phase's kind of histories on mainnet/testnet (85%) started at a height sampled anywhere below 2 000 000 (TIP-906 barrier crossed honestly first). Generated histories as for C01, biased to batches with intra-batch spending, repeated inputs/transactions, missing, spent and destroyed coins, oversized values (~23% of transactions mutated). Oracle: RefSTF (BTreeMap model). (a) accepted => every condition the property makes necessary holds per RefSTF (batches whose outcome the properties leave open are excluded and counted); (b) accepted => the coin tree, decoded entry by entry through the cfg(melstf_verif) view, equals the model's coin map exactly (value, covenant hash, additional data, height, denomination rewrite, destroy filter, faucet markers); (c) rejected => all components of the state are unchanged, both in the object the call was made on and in the driver's copy. Evidence counts over-rejections (not violations). Non-trivial = accepted batch of >=2 transactions with an intra-batch dependency, or a batch rejected for a reason other than malformedness; distinct by (pre-state coin root, transaction hashes).".to_string();
    (out, rule, None)
}

pub fn replay(case: &serde_json::Value) -> Check {
    super::hist::replay_any(case, &profile(), &profile(), C02::default())
}
