//! C17 — the fee multiplier moves only by the bounded, specified step per block.
use melstructs::{CoinData, CoinValue, Denom, NetID, ProposerAction};
use num::{BigInt, Signed, ToPrimitive};
use serde_json::json;

use crate::evidence::{Check, Stats, Violation};
use crate::runner::{run_enumeration, Ctx, Outcome};
use crate::util::catch;
use crate::viol;
use crate::world::{CovSpec, GenesisSpec, World};

#[derive(Clone, Debug, serde::Serialize, serde::Deserialize)]
pub struct Case {
    /// multipliers to test with all 256 deltas
    pub ms: Vec<String>,
    pub net: u8, // 0 Custom02 (TIP-901 on), 1 Mainnet at height 0 (off), 2 Testnet at height 0 (off)
    pub run_len: u16,
}

fn spec(m: u128, d: i8, t901: bool) -> (u128, bool) {
    // exact integer arithmetic; returns (expected, clamped?)
    let mv = BigInt::from(m >> 7);
    let mv = if t901 && mv < BigInt::from(2) { BigInt::from(2) } else { mv };
    let prod = mv * BigInt::from(d);
    // trunc toward zero
    let step = if prod.is_negative() { -((-prod) / BigInt::from(128)) } else { prod / BigInt::from(128) };
    let res = BigInt::from(m) + step;
    if res.is_negative() {
        (0, true)
    } else {
        match res.to_u128() {
            Some(v) => (v, false),
            None => (u128::MAX, true),
        }
    }
}

fn genesis(net: NetID, m: u128) -> GenesisSpec {
    GenesisSpec {
        net,
        init: CoinData { covhash: CovSpec::True.hash(), value: CoinValue(1 << 60), denom: Denom::Mel, additional_data: Default::default() },
        init_cov: CovSpec::True,
        fee_pool: 1 << 30,
        fee_mult: m,
        stakes: vec![],
    }
}

fn dest_for(x: u64) -> melstructs::Address {
    match x % 3 {
        0 => CovSpec::True.hash(),
        1 => melstructs::Address(Default::default()),
        _ => melstructs::Address(tmelcrypt::hash_single(&x.to_le_bytes())),
    }
}

fn one(net: NetID, t901: bool, m: u128, d: Option<i8>, shard: usize) -> Check {
    let w = World::new(genesis(net, m), shard);
    // the step must not depend on where the reward goes: ordinary address, the destruction address, an unknown one
    let action = d.map(|d| ProposerAction { fee_multiplier_delta: d, reward_dest: dest_for(m as u64 ^ (d as u8 as u64) << 3) });
    let cur = w.cur.clone();
    let got = match catch(|| cur.seal(action).header().fee_multiplier) {
        Ok(g) => g,
        Err(p) => viol!(
            format!("seal-panics-{}", if m >> 63 != 0 { "large-multiplier" } else if m < 2 { "tiny-multiplier" } else { "multiplier" }),
            "seal with multiplier {} delta {:?} (TIP-901 {}) panicked: {} at {}",
            m,
            d,
            t901,
            p.message,
            p.location
        ),
    };
    match d {
        None => {
            if got != m {
                viol!("changed-without-action", "multiplier {} became {} in a block sealed without a proposer action", m, got);
            }
        }
        Some(d) => {
            let (want, clamped) = spec(m, d, t901);
            if clamped {
                // the formula leaves the representable range: it must not fail (it did not) and must not move the wrong way / wrap
                let ok = if d < 0 { got <= m } else { got >= m };
                if !ok {
                    viol!("wrapped-around", "multiplier {} with delta {} (TIP-901 {}) became {}", m, d, t901, got);
                }
            } else if got != want {
                let sig = if t901 && (m >> 7) < 2 { "step-wrong-at-floor" } else if m >> 63 != 0 { "step-wrong-large-multiplier" } else { "step-wrong" };
                viol!(sig, "multiplier {} with delta {} (TIP-901 {}): header has {}, specified {}", m, d, t901, got, want);
            }
        }
    }
    Ok(())
}

pub fn check_case(c: &Case, st: &mut Stats, shard: usize) -> Check {
    let (net, t901) = match c.net {
        0 => (NetID::Custom02, true),
        1 => (NetID::Mainnet, false),
        _ => (NetID::Testnet, false),
    };
    for ms in c.ms.iter() {
        let m: u128 = ms.parse().unwrap();
        st.eval();
        one(net, t901, m, None, shard)?;
        for d in i8::MIN..=i8::MAX {
            st.eval();
            one(net, t901, m, Some(d), shard)?;
            if d != 0 {
                st.nontrivial(crate::util::h64(format!("{}|{}|{}", m, d, t901).as_bytes()));
            }
        }
        st.class(if t901 { "tip901-on" } else { "tip901-off" });
    }
    // long runs of extreme deltas from this starting point
    if c.run_len > 0 {
        let m0: u128 = c.ms[0].parse().unwrap();
        let mut w = World::new(genesis(net, m0), shard);
        let mut m = m0;
        for i in 0..c.run_len {
            let d: i8 = match (i / 40) % 4 {
                0 => -128,
                1 => 127,
                2 => -1,
                _ => 1,
            };
            let h = w.height();
            let t901_now = crate::refstf::tips_at(net, h).t901;
            match w.seal(Some(ProposerAction { fee_multiplier_delta: d, reward_dest: dest_for(i as u64) })) {
                crate::world::Outcome::Ok(s) => {
                    let got = s.header().fee_multiplier;
                    let (want, clamped) = spec(m, d, t901_now);
                    if !clamped && got != want {
                        viol!("step-wrong-in-run", "block {}: multiplier {} with delta {} became {}, specified {}", h, m, d, got, want);
                    }
                    if clamped && ((d < 0 && got > m) || (d > 0 && got < m)) {
                        viol!("wrapped-around", "block {}: multiplier {} with delta {} became {}", h, m, d, got);
                    }
                    m = got;
                    st.eval();
                }
                crate::world::Outcome::Panicked(p) => viol!("seal-panics-in-run", "block {}: multiplier {} delta {}: {}", h, m, d, p.message),
                _ => break,
            }
        }
        st.class("long-run-of-extreme-deltas");
    }
    Ok(())
}

pub fn multipliers(thorough: bool, seed: u64) -> Vec<u128> {
    let mut v: Vec<u128> = vec![];
    let stride = if thorough { 1 } else { 2 };
    let top = if thorough { 16384 } else { 4096 };
    let mut i = 0u128;
    while i <= top {
        v.push(i);
        i += stride;
    }
    for k in [0u128, 1, 2, 3, 127, 128, 129, 255, 256, 257, 383, 384, 4095, 4096] {
        v.push(k);
    }
    for k in 7..=69u32 {
        for off in -2i32..=2 {
            let base = 1u128 << k;
            v.push((base as i128 + off as i128) as u128);
        }
    }
    // beyond the property's stated range (2^70), for its last sentence only: it never wraps
    for k in [100u32, 126, 127] {
        for off in -2i32..=2 {
            v.push((1u128 << k).wrapping_add(off as i128 as u128));
        }
    }
    v.push(u128::MAX);
    v.push(u128::MAX - 1);
    v.push(u128::MAX / 2);
    v.push((1u128 << 70) - 2);
    v.push((1u128 << 70) - 1);
    v.push(1u128 << 70);
    let n = if thorough { 2000 } else { 300 };
    for i in 0..n {
        let h = blake3::hash(format!("c17-{}-{}", seed, i).as_bytes());
        let x = u128::from_le_bytes(h.as_bytes()[..16].try_into().unwrap());
        let bits = 8 + (h.as_bytes()[20] as u32 % 63);
        v.push(x & ((1u128 << bits) - 1));
    }
    v.sort();
    v.dedup();
    v
}

pub fn run(ctx: &Ctx) -> (Outcome, String, Option<bool>) {
    let ms = multipliers(ctx.thorough(), ctx.seed);
    let mut cases = vec![];
    for net in 0..3u8 {
        // the off-classes get a thinner sample of the small range
        for (i, chunk) in ms.chunks(8).enumerate() {
            if net > 0 && i % 3 != 0 {
                continue;
            }
            cases.push(Case { ms: chunk.iter().map(|m| m.to_string()).collect(), net, run_len: if i % 29 == 0 { 300 } else { 0 } });
        }
    }
    let n_cases = cases.len();
    let mut out = run_enumeration(ctx, "delta-x-multiplier", cases, |c, st, shard| {
        let r = check_case(c, st, shard);
        if st.want_sample() {
            st.sample(|| json!({"multipliers": c.ms, "net": c.net, "deltas": "all 256", "run_len": c.run_len}));
        }
        r
    });
    out.stats.classes.insert("multiplier-chunks".into(), n_cases as u64);
    // activation boundaries: the blocks just below, at and above the TIP-901 height on mainnet (42 700, reached by
    // re-basing a state through from_block) and on testnet (500, reached honestly)
    let mut bcases = vec![];
    for net in [1u8, 2] {
        for m in [0u128, 1, 2, 3, 100, 127, 128, 255, 256, 257, 300, 1000, 65536] {
            bcases.push((net, m.to_string()));
        }
    }
    let o = run_enumeration(ctx, "activation-boundary", bcases, |(net, ms), st, shard| boundary_case(*net, ms.parse().unwrap(), st, shard));
    out.absorb(o);
    out.absorb(crate::runner::run_sharded(ctx, "sampled-heights", ctx.scale(400, 6000), arb_at_height, |c, st, shard| check_at_height(c, st, shard)));
    let rule = format!("Sampled: mainnet and testnet states re-based at heights drawn uniformly from 3..2 000 000 (TIP-906 barrier crossed honestly), multiplier installed through the header from 12 classes (0, 1, 2, 127, 128, 10^3, 10^6, 2^63-1, 2^63, 2^70+5, 2^100, 2^128-4), 1-4 blocks sealed with extreme and random deltas. Enumerated: all 256 deltas x multipliers {{0..{} step {}}} + {{2^k-2..2^k+2 : 7<=k<=69}} + {{2^70-2, 2^70-1, 2^70}} + pseudo-random values below 2^70 + a few values around 2^100, 2^126, 2^127 and 2^128-1 ({} multipliers), on Custom02 (TIP-901 active) and on Mainnet and Testnet at height 0 (TIP-901 inactive; every third chunk), plus sealing without action, plus runs of 300 blocks of extreme deltas (-128, 127, -1, 1 in stretches of 40) from selected starting points. Additionally, for 13 starting multipliers, the blocks at heights activation-2 .. activation+2 of TIP-901 on mainnet (42 700; state re-based through from_block) and testnet (500; reached with empty blocks) are sealed with deltas -128, -64, -1, 1, 64, 127. Oracle: m' = m + trunc(max(m>>7, 2 if TIP-901) * d / 128) in exact integer arithmetic; where that leaves [0, 2^128) the only requirement is that sealing does not fail and the multiplier does not move the wrong way or wrap; no action => unchanged. Non-trivial = (m, d) with d != 0; distinct by (m, d, TIP-901).", if ctx.thorough() { 16384 } else { 4096 }, if ctx.thorough() { 1 } else { 2 }, ms.len());
    (out, rule, Some(true))
}

pub fn replay(case: &serde_json::Value) -> Check {
    if case.get("m_sel").is_some() {
        let c: AtHeight = serde_json::from_value(case.clone()).map_err(|e| Violation::new("replay-format", e.to_string()))?;
        return check_at_height(&c, &mut Stats::default(), 200);
    }
    if let Ok((net, ms)) = serde_json::from_value::<(u8, String)>(case.clone()) {
        let mut st = Stats::default();
        return boundary_case(net, ms.parse().unwrap_or(0), &mut st, 200);
    }
    let c: Case = serde_json::from_value(case.clone()).map_err(|e| Violation::new("replay-format", e.to_string()))?;
    let mut st = Stats::default();
    check_case(&c, &mut st, 200)
}

/// (Half of the cases with multipliers up to 10^6 seal blocks that carry tips.)
/// The step rule at heights sampled anywhere below 2 000 000 on mainnet and testnet (the TIP-906 barrier crossed
/// honestly where the target lies beyond it), with the multiplier installed by re-basing the state on a header that
/// carries it: ordinary and extreme multipliers, every delta class.
#[derive(Clone, Debug, serde::Serialize, serde::Deserialize)]
pub struct AtHeight {
    pub net: u8,
    pub height: u32,
    pub m_sel: u8,
    pub deltas: Vec<i8>,
}

pub fn arb_at_height() -> impl proptest::strategy::Strategy<Value = AtHeight> {
    use proptest::prelude::*;
    (any::<u8>(), 3u32..2_000_000, any::<u8>(), proptest::collection::vec(prop_oneof![Just(-128i8), Just(127), Just(-1), Just(1), Just(-64), any::<i8>()], 1..5))
        .prop_map(|(net, height, m_sel, deltas)| AtHeight { net, height, m_sel, deltas })
}

pub fn check_at_height(c: &AtHeight, st: &mut Stats, shard: usize) -> Check {
    st.eval();
    // half of the cases on mainnet / testnet, the other half over all nine network ids (on the custom networks every
    // TIP is active from genesis - whatever else a network id switches on at some height shows here)
    let net = match c.net % 18 {
        x if x < 9 => if x % 2 == 0 { NetID::Mainnet } else { NetID::Testnet },
        x => crate::world::nets()[(x - 9) as usize],
    };
    let barrier = if net == NetID::Mainnet { 829_999u64 } else if net == NetID::Testnet { 499 } else { u64::MAX - 10 };
    let target = c.height as u64;
    let mut w = World::new(genesis(net, 1000), shard);
    if target > barrier + 2 {
        if !crate::plan::teleport(&mut w, barrier, st) {
            return Ok(());
        }
        for _ in 0..2 {
            if !matches!(w.seal(None), crate::world::Outcome::Ok(_)) {
                return Ok(());
            }
        }
    }
    if target > w.height() + 1 && !crate::plan::teleport(&mut w, target, st) {
        return Ok(());
    }
    let ms: [u128; 12] = [0, 1, 2, 127, 128, 1000, 1_000_000, (1 << 63) - 1, 1 << 63, (1 << 70) + 5, 1 << 100, u128::MAX - 3];
    let mut m = ms[c.m_sel as usize % ms.len()];
    // install the multiplier: re-base the last sealed state on a header that carries it
    let s0 = match w.seal(None) {
        crate::world::Outcome::Ok(s) => s,
        _ => return Ok(()),
    };
    let mut blk = s0.to_block();
    blk.header.fee_multiplier = m;
    let r = match catch(|| crate::world::Sealed::from_block(&blk, &s0.raw_stakes(), &w.db)) {
        Ok(r) => r,
        Err(_) => return Ok(()),
    };
    let hd = r.header();
    w.headers.insert(hd.height.0, hd);
    w.cur = r.next_unsealed();
    w.last_sealed = Some(r);
    // half of the cases with ordinary multipliers put a transaction that pays far more than its minimum fee into every
    // block before it is sealed, so that the block carries tips when the multiplier is moved
    let tipped = (c.m_sel >> 4) % 2 == 0 && m <= 1_000_000;
    let mut coin = (melstructs::CoinID::zero_zero(), 1u128 << 60);
    for d in c.deltas.iter().copied() {
        let h = w.height();
        let t901 = crate::refstf::tips_at(net, h).t901;
        if tipped && coin.1 > (1 << 41) {
            let mut tx = melstructs::Transaction::new(melstructs::TxKind::Normal);
            tx.inputs = vec![coin.0];
            tx.covenants = vec![CovSpec::True.bytes().into()];
            tx.fee = CoinValue(1 << 40);
            tx.outputs = vec![CoinData { covhash: CovSpec::True.hash(), value: CoinValue(coin.1 - (1 << 40)), denom: Denom::Mel, additional_data: Default::default() }];
            if let crate::world::Outcome::Ok(()) = w.apply_batch(std::slice::from_ref(&tx)) {
                coin = (tx.output_coinid(0), coin.1 - (1 << 40));
                st.class("block-with-tips-before-the-step");
            }
        }
        match w.seal(Some(ProposerAction { fee_multiplier_delta: d, reward_dest: dest_for(h ^ m as u64) })) {
            crate::world::Outcome::Ok(s) => {
                let got = s.header().fee_multiplier;
                let (want, clamped) = spec(m, d, t901);
                if !clamped && got != want {
                    viol!("step-wrong-at-sampled-height", "{:?} block {} (TIP-901 active: {}): multiplier {} with delta {} became {}, specified {}", net, h, t901, m, d, got, want);
                }
                if clamped && ((d < 0 && got > m) || (d > 0 && got < m)) {
                    viol!("wrapped-around", "{:?} block {}: multiplier {} with delta {} became {}", net, h, m, d, got);
                }
                m = got;
            }
            crate::world::Outcome::Panicked(p) => viol!("seal-panics-at-sampled-height", "{:?} block {}: multiplier {} delta {}: {}", net, h, m, d, p.message),
            _ => break,
        }
    }
    st.class(if net == NetID::Mainnet { "sampled-height-mainnet" } else if net == NetID::Testnet { "sampled-height-testnet" } else { "sampled-height-custom-network" });
    st.nontrivial(crate::util::h64(format!("{:?}", c).as_bytes()));
    Ok(())
}

fn boundary_case(net_sel: u8, m0: u128, st: &mut Stats, shard: usize) -> Check {
    let (net, act) = if net_sel == 1 { (NetID::Mainnet, 42_700u64) } else { (NetID::Testnet, 500u64) };
    for d in [-128i8, -64, -1, 1, 64, 127] {
        let mut w = World::new(genesis(net, m0), shard);
        // get to height act-2 (unsealed)
        if net == NetID::Mainnet {
            if !crate::plan::teleport(&mut w, act - 2, st) {
                return Ok(());
            }
        } else {
            for _ in 0..(act - 2) {
                if !matches!(w.seal(None), crate::world::Outcome::Ok(_)) {
                    return Ok(());
                }
            }
        }
        let mut m = m0;
        for _ in 0..5 {
            let h = w.height();
            let t901 = crate::refstf::tips_at(net, h).t901;
            match w.seal(Some(ProposerAction { fee_multiplier_delta: d, reward_dest: dest_for(h ^ m as u64) })) {
                crate::world::Outcome::Ok(s) => {
                    st.eval();
                    let got = s.header().fee_multiplier;
                    let (want, clamped) = spec(m, d, t901);
                    if !clamped && got != want {
                        viol!(
                            if h == act { "step-wrong-at-activation-height" } else { "step-wrong-near-activation-height" },
                            "{:?} block {} (TIP-901 active: {}): multiplier {} with delta {} became {}, specified {}",
                            net,
                            h,
                            t901,
                            m,
                            d,
                            got,
                            want
                        );
                    }
                    if clamped && ((d < 0 && got > m) || (d > 0 && got < m)) {
                        viol!("wrapped-around", "{:?} block {}: multiplier {} with delta {} became {}", net, h, m, d, got);
                    }
                    m = got;
                    st.nontrivial(crate::util::h64(format!("boundary|{:?}|{}|{}|{}", net, h, m, d).as_bytes()));
                }
                crate::world::Outcome::Panicked(p) => viol!("seal-panics-near-activation", "{:?} block {}: multiplier {} delta {}: {}", net, h, m, d, p.message),
                _ => break,
            }
        }
    }
    st.class("activation-boundary-run");
    Ok(())
}
