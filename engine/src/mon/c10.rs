//! C10 — MelVM executes exactly the specified semantics, deterministically.
use std::collections::HashMap;

use proptest::prelude::*;
use serde_json::json;

use crate::evidence::{Check, Stats, Violation};
use crate::refvm::{self, REnv, ROp, RVal, RunEnd};
use crate::runner::{run_enumeration, run_sharded, Ctx, Outcome};
use crate::util::{catch, h64};
use crate::viol;

pub const WEIGHT_CAP: u128 = 50_000;

fn be(v: u128) -> [u8; 32] {
    let mut b = [0u8; 32];
    b[16..].copy_from_slice(&v.to_be_bytes());
    b
}

fn alphabet() -> Vec<ROp> {
    let mut top = [0u8; 32];
    top[0] = 0x80;
    vec![
        ROp::PushI(be(0)),
        ROp::PushI(be(1)),
        ROp::PushI(be(2)),
        ROp::PushI(top),
        ROp::Add,
        ROp::Sub,
        ROp::Dup,
        ROp::Eql,
        ROp::Bez(1),
        ROp::Jmp(1),
        ROp::Loop(2, 1),
        ROp::Loop(2, 2),
        ROp::VEmpty,
        ROp::VPush,
        ROp::VRef,
        ROp::BEmpty,
        ROp::BPush,
        ROp::StoreImm(0),
        ROp::LoadImm(0),
    ]
}

/// A second, wider alphabet: one representative of (almost) every opcode, for exhaustive short programs.
fn alphabet_wide() -> Vec<ROp> {
    vec![
        ROp::PushIC(be(0)),
        ROp::PushIC(be(1)),
        ROp::PushIC(be(2)),
        ROp::PushIC([0xff; 32]),
        ROp::PushB(vec![]),
        ROp::PushB(vec![0x61, 0x62]),
        ROp::PushB(vec![7; 32]),
        ROp::Noop,
        ROp::Mul,
        ROp::Div,
        ROp::Rem,
        ROp::Exp(1),
        ROp::And,
        ROp::Or,
        ROp::Xor,
        ROp::Not,
        ROp::Lt,
        ROp::Gt,
        ROp::Shl,
        ROp::Shr,
        ROp::Hash(32),
        ROp::Store,
        ROp::Load,
        ROp::VAppend,
        ROp::VLength,
        ROp::VSlice,
        ROp::VSet,
        ROp::VCons,
        ROp::VEmpty,
        ROp::VPush,
        ROp::BRef,
        ROp::BAppend,
        ROp::BLength,
        ROp::BSlice,
        ROp::BSet,
        ROp::BCons,
        ROp::BPush,
        ROp::ItoB,
        ROp::BtoI,
        ROp::TypeQ,
        ROp::Dup,
        ROp::Bnz(1),
        ROp::Loop(3, 1),
    ]
}

fn show_val(v: &Option<RVal>) -> String {
    match v {
        None => "None".into(),
        Some(v) => {
            let s = format!("{:?}", v);
            if s.len() > 300 {
                format!("{}…", &s[..300])
            } else {
                s
            }
        }
    }
}

#[derive(Clone, Debug, serde::Serialize, serde::Deserialize)]
pub struct VmCase {
    pub ops: Vec<ROp>,
    pub heap: Vec<RVal>,
}

/// Differential execution of one program on one initial heap (debug_execute path).
pub fn check_program(ops: &[ROp], heap: &[RVal], st: &mut Stats) -> Check {
    st.eval();
    let w = refvm::weight(ops);
    if w > WEIGHT_CAP {
        st.exclude("weight-above-cap");
        return Ok(());
    }
    let hm: HashMap<u16, RVal> = heap.iter().enumerate().map(|(i, v)| (i as u16, v.clone())).collect();
    let mut ex = refvm::RefExec::new(ops, hm);
    let rr = ex.run(4 * WEIGHT_CAP as u64 + 1000);
    let expected = match rr {
        RunEnd::Budget => {
            st.exclude("reference-budget");
            return Ok(());
        }
        RunEnd::Fail => None,
        RunEnd::Done(v) => v,
    };
    let real_ops: Vec<_> = ops.iter().map(refvm::to_real_op).collect();
    let cov = melvm::Covenant::from_ops(&real_ops);
    let real_heap: Vec<melvm::Value> = heap.iter().map(refvm::to_real_value).collect();
    let r1 = match catch(|| cov.debug_execute(&real_heap)) {
        Ok(r) => r,
        Err(p) => viol!("vm-panic", "program [{}] panicked: {:?}", refvm::show_ops(ops), p),
    };
    let r2 = catch(|| cov.debug_execute(&real_heap)).ok().flatten();
    // compared in flattened form: the implementation's own equality on its rope-backed byte strings walks the tree
    // once per element (13 s for a 100 MB result that a 264-byte covenant of weight 1583 builds by doubling)
    let got = r1.as_ref().map(refvm::from_real_value);
    if got != r2.as_ref().map(refvm::from_real_value) {
        viol!("nondeterministic", "program [{}] gave two different results", refvm::show_ops(ops));
    }
    if got != expected {
        let sig = format!("semantics-{}", first_divergence_hint(ops));
        viol!(
            sig,
            "program [{}] on heap {:?}: implementation {} but specification gives {}",
            refvm::show_ops(ops),
            heap,
            show_val(&got),
            show_val(&expected)
        );
    }
    classify(&ex, &expected, ops, st);
    Ok(())
}

fn first_divergence_hint(ops: &[ROp]) -> String {
    // coarse: the set of opcode mnemonics involved, up to 3
    let mut k: Vec<String> = ops
        .iter()
        .filter(|o| !matches!(o, ROp::PushI(_) | ROp::PushIC(_) | ROp::PushB(_)))
        .map(|o| format!("{:?}", o).split('(').next().unwrap().to_lowercase())
        .collect();
    k.sort();
    k.dedup();
    k.truncate(3);
    k.join("+")
}

fn classify(ex: &refvm::RefExec, expected: &Option<RVal>, ops: &[ROp], st: &mut Stats) {
    let nonpush = ex.executed_kinds.iter().filter(|k| !matches!(**k, 0xf0 | 0xf1 | 0xf2)).count();
    if ex.steps >= 3 && ex.executed_kinds.len() >= 2 && nonpush >= 1 {
        let mut d = refvm::encode(ops).unwrap_or_default();
        d.extend_from_slice(&ex.steps.to_le_bytes());
        st.nontrivial(h64(&d));
    }
    st.class(if expected.is_some() { "ended-success" } else { "ended-failure-or-empty" });
    if ex.loops_iterated > 0 {
        st.class("loop-iterated");
    }
    if ex.jumps_taken > 0 {
        st.class("jump-taken");
    }
    // per-opcode reach of the generated (not enumerated) programs: in how many programs that ended in success the
    // opcode was executed
    if ops.len() > 6 && expected.is_some() {
        for k in ex.executed_kinds.iter() {
            st.class(opk(*k));
        }
    }
    if ex.sig_ok > 0 {
        st.class("signature-accepted");
    }
}

fn opk(k: u8) -> &'static str {
    static T: std::sync::OnceLock<Vec<&'static str>> = std::sync::OnceLock::new();
    T.get_or_init(|| (0..256).map(|k| &*Box::leak(format!("ok-run-executed-op-0x{:02x}", k).into_boxed_str())).collect())[k as usize]
}

/// Differential execution through Covenant::execute on a transaction + environment.
pub fn check_env(ops: &[ROp], tx: &melstructs::Transaction, env: &REnv, st: &mut Stats) -> Check {
    st.eval();
    if refvm::weight(ops) > WEIGHT_CAP {
        st.exclude("weight-above-cap");
        return Ok(());
    }
    let mut ex = refvm::RefExec::new(ops, refvm::env_heap(tx, Some(env)));
    let expected = match ex.run(4 * WEIGHT_CAP as u64 + 1000) {
        RunEnd::Budget => {
            st.exclude("reference-budget");
            return Ok(());
        }
        RunEnd::Fail => None,
        RunEnd::Done(v) => v,
    };
    let real_ops: Vec<_> = ops.iter().map(refvm::to_real_op).collect();
    let cov = melvm::Covenant::from_ops(&real_ops);
    let renv = melvm::CovenantEnv {
        parent_coinid: env.coin_id,
        parent_cdh: env.cdh.clone(),
        spender_index: env.spender_index as u8,
        last_header: env.last_header,
    };
    let got = match catch(|| cov.execute(tx, Some(renv))) {
        Ok(r) => r.as_ref().map(refvm::from_real_value),
        Err(p) => viol!("vm-panic", "program [{}] panicked under execute: {:?}", refvm::show_ops(ops), p),
    };
    if got != expected {
        viol!(
            format!("env-semantics-{}", first_divergence_hint(ops)),
            "program [{}] with environment: implementation {} but specification gives {}",
            refvm::show_ops(ops),
            show_val(&got),
            show_val(&expected)
        );
    }
    classify(&ex, &expected, ops, st);
    st.class("via-execute-with-env");
    Ok(())
}

fn enumerate_rec(alpha: &[ROp], cur: &mut Vec<ROp>, len: usize, st: &mut Stats) -> Check {
    if cur.len() == len {
        return check_program(cur, &[], st);
    }
    for a in alpha {
        cur.push(a.clone());
        enumerate_rec(alpha, cur, len, st)?;
        cur.pop();
    }
    Ok(())
}

pub fn arb_tx_env() -> impl Strategy<Value = (Vec<u8>, u64)> {
    (proptest::collection::vec(any::<u8>(), 0..40), any::<u64>())
}

/// A small deterministic transaction + environment derived from a seed (contents matter only as data).
pub fn mk_tx_env(seed: u64, data: &[u8]) -> (melstructs::Transaction, REnv) {
    use melstructs::*;
    let h = |i: u64| tmelcrypt::hash_single(&[seed.to_le_bytes(), i.to_le_bytes()].concat());
    let kinds = [TxKind::Normal, TxKind::Swap, TxKind::Stake, TxKind::Faucet, TxKind::DoscMint, TxKind::LiqDeposit, TxKind::LiqWithdraw];
    let denoms = [Denom::Mel, Denom::Sym, Denom::Erg, Denom::NewCustom, Denom::Custom(TxHash(h(77)))];
    let nin = 1 + (seed % 3) as usize;
    let nout = (seed >> 3) % 4;
    let tx = Transaction {
        kind: kinds[(seed % 7) as usize],
        inputs: (0..nin).map(|i| CoinID::new(TxHash(h(i as u64)), (seed >> 9) as u8)).collect(),
        outputs: (0..nout)
            .map(|i| CoinData {
                covhash: Address(h(100 + i)),
                value: CoinValue((seed as u128).wrapping_mul(i as u128 + 1) % (1u128 << 120)),
                denom: denoms[((seed >> 5) as usize + i as usize) % 5],
                additional_data: data[..data.len().min(i as usize * 3)].to_vec().into(),
            })
            .collect(),
        fee: CoinValue((seed >> 7) as u128),
        covenants: vec![data.to_vec().into()],
        data: data.to_vec().into(),
        sigs: (0..(seed >> 11) % 3).map(|i| h(200 + i).0.to_vec().into()).collect(),
    };
    let env = REnv {
        coin_id: tx.inputs[0],
        cdh: CoinDataHeight {
            coin_data: CoinData {
                covhash: Address(h(300)),
                value: CoinValue(seed as u128 * 3),
                denom: denoms[(seed >> 13) as usize % 5],
                additional_data: data.to_vec().into(),
            },
            height: BlockHeight(seed >> 40),
        },
        spender_index: (seed >> 17) % 256,
        last_header: Header {
            network: NetID::Custom02,
            previous: h(400),
            height: BlockHeight(seed >> 33),
            history_hash: h(401),
            coins_hash: h(402),
            transactions_hash: h(403),
            fee_pool: CoinValue(seed as u128),
            fee_multiplier: (seed as u128) << 3,
            dosc_speed: seed as u128 ^ 0xffff,
            pools_hash: h(404),
            stakes_hash: h(405),
        },
    };
    (tx, env)
}

pub fn run(ctx: &Ctx) -> (Outcome, String, Option<bool>) {
    let mut out = Outcome::empty();
    let alpha = alphabet();
    let maxlen = if ctx.thorough() { 6 } else { 5 };

    // (a) exhaustive over the reduced alphabet; split by the first two symbols
    let mut prefixes: Vec<Vec<u32>> = vec![];
    for i in 0..alpha.len() as u32 {
        for j in 0..alpha.len() as u32 {
            prefixes.push(vec![i, j]);
        }
    }
    let o = run_enumeration(ctx, "exhaustive-short-programs", prefixes, |pre, st, _| {
        let a = alphabet();
        let mut cur: Vec<ROp> = pre.iter().map(|i| a[*i as usize].clone()).collect();
        // lengths 1 and 2 are covered by prefix [i, j] itself plus its first symbol
        if pre[1] == 0 {
            check_program(&cur[..1], &[], st)?;
        }
        check_program(&cur, &[], st)?;
        for len in 3..=maxlen {
            enumerate_rec(&a, &mut cur, len, st)?;
        }
        if st.want_sample() {
            st.sample(|| json!({"kind":"exhaustive prefix", "ops": refvm::show_ops(&cur)}));
        }
        Ok(())
    });
    out.absorb(o);

    // (a') exhaustive over the wide alphabet (one representative of nearly every opcode), shorter programs
    let wide = alphabet_wide();
    let wlen = if ctx.thorough() { 5 } else { 4 };
    let mut prefixes: Vec<Vec<u32>> = vec![];
    for i in 0..wide.len() as u32 {
        for j in 0..wide.len() as u32 {
            prefixes.push(vec![1000 + i, 1000 + j]);
        }
    }
    let o = run_enumeration(ctx, "exhaustive-wide-alphabet", prefixes, |pre, st, _| {
        let a = alphabet_wide();
        let mut cur: Vec<ROp> = pre.iter().map(|i| a[(*i - 1000) as usize].clone()).collect();
        check_program(&cur, &[], st)?;
        for len in 3..=wlen {
            enumerate_rec(&a, &mut cur, len, st)?;
        }
        Ok(())
    });
    out.absorb(o);

    // (a'') exponentiation grid: every immediate k x exponents of k, k+1, k+2 significant bits (k+1 is the most that
    // `exp k` admits) in four bit patterns x eight bases
    let o = run_enumeration(ctx, "exp-grid", (0u32..256).collect::<Vec<u32>>(), |k, st, _| {
        let mut bases: Vec<[u8; 32]> = [0u128, 1, 2, 3, 5, (1 << 127) + 1].iter().map(|v| be(*v)).collect();
        bases.push([0xff; 32]);
        let mut odd = [0u8; 32];
        odd[0] = 0x80;
        odd[31] = 0x01;
        bases.push(odd);
        for l in [*k, *k + 1, *k + 2] {
            if l > 256 {
                continue;
            }
            for pat in 0..4u8 {
                let e = crate::vmgen::exp_operand(l, pat, (*k as u64) << 8 | pat as u64);
                for b in bases.iter() {
                    let ops = vec![ROp::PushI(e), ROp::PushI(*b), ROp::Exp(*k as u8)];
                    check_program(&ops, &[], st)?;
                    st.class(if l <= *k + 1 { "exp-grid-exponent-within-limit" } else { "exp-grid-exponent-too-wide" });
                }
            }
        }
        Ok(())
    });
    out.absorb(o);

    // (b) type-aware random programs on random heaps
    let o = run_sharded(
        ctx,
        "typed-random-programs",
        ctx.scale(40_000, 400_000),
        || {
            (crate::vmgen::choices(60), proptest::collection::vec(crate::vmgen::arb_rval(2), 0..5))
                .prop_map(|(ch, heap)| VmCase { ops: crate::vmgen::build_program(&ch), heap })
        },
        |c, st, _| {
            let r = check_program(&c.ops, &c.heap, st);
            if st.want_sample() {
                st.sample(|| json!({"kind":"typed-random", "ops": refvm::show_ops(&c.ops), "heap_cells": c.heap.len()}));
            }
            r
        },
    );
    out.absorb(o);

    // (c) the same generator through Covenant::execute with a transaction and an environment
    let o = run_sharded(
        ctx,
        "typed-random-with-env",
        ctx.scale(15_000, 150_000),
        || (crate::vmgen::choices(40), arb_tx_env()),
        |(ch, (data, seed)), st, _| {
            let ops = crate::vmgen::build_program(ch);
            let (tx, env) = mk_tx_env(*seed, data);
            let r = check_env(&ops, &tx, &env, st);
            if st.want_sample() {
                st.sample(|| json!({"kind":"with-env", "ops": refvm::show_ops(&ops), "tx_kind": format!("{:?}", tx.kind), "inputs": tx.inputs.len(), "outputs": tx.outputs.len()}));
            }
            r
        },
    );
    out.absorb(o);

    // (d) byte strings that decode (random and mutated)
    let o = run_sharded(
        ctx,
        "decodable-bytes",
        ctx.scale(20_000, 200_000),
        || {
            prop_oneof![
                proptest::collection::vec(any::<u8>(), 0..48),
                (crate::vmgen::choices(30), any::<u16>(), any::<u8>()).prop_map(|(ch, pos, val)| {
                    let mut b = refvm::encode(&crate::vmgen::build_program(&ch)).unwrap();
                    if !b.is_empty() {
                        let i = crate::util::sel(pos, b.len());
                        b[i] = val;
                    }
                    b
                }),
            ]
        },
        |b, st, _| match refvm::decode(b) {
            Ok(ops) => check_program(&ops, &[], st),
            Err(_) => {
                st.eval();
                st.class("undecodable");
                Ok(())
            }
        },
    );
    out.absorb(o);

    let rule = format!("Enumerated: every program of length 1-{0} over a 19-symbol alphabet (push 0/1/2/2^255, add, sub, dup, eql, bez 1, jmp 1, loop 2 1, loop 2 2, vempty, vpush, vref, bempty, bpush, storeimm 0, loadimm 0). Also enumerated: every program of length 2-{1} over a 43-symbol alphabet with one representative of nearly every opcode (mul, div, rem, exp, bit ops, comparisons, shifts, hash, store/load, all vector and byte-string operations, conversions, typeq, bnz, loop 3 1). Generated: type-aware random programs (abstract stack of int/bytes/vector; boundary operands; nested loops; jumps) of up to ~150 instructions on random initial heaps, the same through Covenant::execute with a generated transaction+environment, and decodable byte strings. Programs with reference weight > {2} are excluded (counted). Oracle: RefVM (independent interpreter over Vec/BigUint) must give the same None/Some and the same value; the implementation run twice must agree. Non-trivial = executes >=3 instructions of >=2 kinds, not all pushes; distinct by bytecode+steps.", maxlen, wlen, WEIGHT_CAP);
    (out, rule, Some(true))
}

#[allow(dead_code)]
pub fn replay(case: &serde_json::Value) -> Check {
    let mut st = Stats::default();
    if let Ok(c) = serde_json::from_value::<VmCase>(case.clone()) {
        return check_program(&c.ops, &c.heap, &mut st);
    }
    if let Ok(b) = serde_json::from_value::<Vec<u8>>(case.clone()) {
        return match refvm::decode(&b) {
            Ok(ops) => check_program(&ops, &[], &mut st),
            Err(_) => Ok(()),
        };
    }
    if let Ok((ch, (data, seed))) = serde_json::from_value::<(Vec<(u8, u64)>, (Vec<u8>, u64))>(case.clone()) {
        let ops = crate::vmgen::build_program(&ch);
        let (tx, env) = mk_tx_env(seed, &data);
        return check_env(&ops, &tx, &env, &mut st);
    }
    if let Ok(pre) = serde_json::from_value::<Vec<u32>>(case.clone()) {
        if pre.iter().all(|x| *x >= 1000) {
            let a = alphabet_wide();
            let mut cur: Vec<ROp> = pre.iter().map(|i| a[(*i - 1000) as usize].clone()).collect();
            check_program(&cur, &[], &mut st)?;
            for len in 3..=4 {
                enumerate_rec(&a, &mut cur, len, &mut st)?;
            }
            return Ok(());
        }
        let a = alphabet();
        let mut cur: Vec<ROp> = pre.iter().map(|i| a[*i as usize].clone()).collect();
        check_program(&cur, &[], &mut st)?;
        for len in 3..=5 {
            enumerate_rec(&a, &mut cur, len, &mut st)?;
        }
        return Ok(());
    }
    Err(Violation::new("replay-format", "cannot interpret replay case"))
}
