//! C08 — restart equivalence: a state rebuilt from its block behaves identically.
use crate::evidence::{Check, Stats};
use crate::plan::{BatchObs, Monitor, Profile, SealObs};
use crate::runner::{Ctx, Outcome};
use crate::util::{catch, h64};
use crate::viol;
use crate::world::{Outcome as O, Sealed, Unsealed, World};

#[derive(Default)]
pub struct C08 {
    /// the restarted lineage, advanced in lock-step with the original
    shadow: Option<Unsealed>,
    /// a second restarted lineage, rebuilt in a *cold store*: a fresh content-addressed store that holds nothing but the
    /// three trees of the restart point, re-inserted from their iterated contents
    cold: Option<Unsealed>,
    restart_header: Vec<u8>,
    restart_had_pending_tips: bool,
    restart_had_action: bool,
    interesting_after: bool,
    coins_before_restart: std::collections::BTreeSet<melstructs::CoinID>,
    digest: Vec<u8>,
}

impl C08 {
    fn sig(&self, base: &str) -> String {
        if self.restart_had_pending_tips && !self.restart_had_action {
            format!("{}-after-restart-with-uncollected-tips", base)
        } else {
            base.to_string()
        }
    }
}

impl Monitor for C08 {
    fn on_teleport(&mut self, _w: &World, _st: &mut Stats) -> Check {
        // the original lineage was re-based at another height; the shadow lineage would have to be re-based the same
        // way to stay comparable - the comparison resumes at the next restart point instead
        self.shadow = None;
        self.cold = None;
        Ok(())
    }
    fn on_restart(&mut self, w: &World, before: &Sealed, after: &Sealed, st: &mut Stats) -> Check {
        if before.header() != after.header() {
            viol!("rebuilt-header-differs", "the state rebuilt from its block has another header (height {})", before.header().height);
        }
        let bv = before.verif_view();
        self.restart_had_pending_tips = bv.tips.0 > 0;
        self.restart_had_action = before.proposer_action().is_some();
        self.restart_header = before.header().hash().0.to_vec();
        self.digest = self.restart_header.clone();
        self.coins_before_restart = w.wallet.iter().map(|c| c.id).collect();
        self.interesting_after = false;
        st.class("restart-point");
        if self.restart_had_pending_tips {
            st.class("restart-point-with-pending-tips");
        }
        if self.restart_had_action {
            st.class("restart-point-with-action");
        }
        match catch(|| after.next_unsealed()) {
            Ok(n) => self.shadow = Some(n),
            Err(p) => viol!("rebuilt-state-panics", "next_unsealed on the rebuilt state panicked: {}", p.message),
        }
        // the same restart from a cold store
        self.cold = None;
        match catch(|| cold_rebuild(before)) {
            Ok(Some(c)) => {
                if c.header() != before.header() {
                    viol!("rebuilt-header-differs-cold-store", "the state rebuilt from its block in a store holding only the block's three trees has another header (height {})", before.header().height);
                }
                match catch(|| c.next_unsealed()) {
                    Ok(n) => {
                        self.cold = Some(n);
                        st.class("restart-point-also-from-cold-store");
                    }
                    Err(p) => viol!("rebuilt-state-panics-cold-store", "next_unsealed on the state rebuilt in a cold store panicked: {}", p.message),
                }
            }
            Ok(None) => st.exclude("cold-store-roots-not-reproduced"),
            Err(p) => viol!("rebuilt-state-panics-cold-store", "rebuilding the state in a cold store panicked: {}", p.message),
        }
        Ok(())
    }

    fn on_batch(&mut self, w: &World, ob: &BatchObs, _st: &mut Stats) -> Check {
        if self.shadow.is_none() && self.cold.is_none() {
            return Ok(());
        }
        let txs = ob.txs;
        let orig = match ob.outcome {
            O::Ok(()) => "accepted".to_string(),
            O::Rejected(e) => format!("rejected: {}", e),
            O::Panicked(p) => format!("panicked: {}", p.message),
        };
        let mut any_accepted = false;
        for which in 0..2 {
            let sig = self.sig(if which == 0 { "accept-reject-differs" } else { "accept-reject-differs-cold-store" });
            let sh = match if which == 0 { self.shadow.as_mut() } else { self.cold.as_mut() } {
                Some(s) => s,
                None => continue,
            };
            let mut trial = sh.clone();
            let pool = w.pool.clone();
            let r = catch(|| pool.install(|| trial.apply_tx_batch(txs)));
            let got = match r {
                Ok(Ok(())) => {
                    *sh = trial;
                    "accepted".to_string()
                }
                Ok(Err(e)) => format!("rejected: {:?}", e),
                Err(p) => format!("panicked: {}", p.message),
            };
            if got.split(':').next() != orig.split(':').next() {
                viol!(sig, "a batch of {} transaction(s) is '{}' by the original lineage but '{}' by the restarted one{}", txs.len(), orig, got, if which == 1 { " (cold store)" } else { "" });
            }
            if got == "accepted" {
                any_accepted = true;
            }
        }
        if any_accepted && txs.iter().any(|t| t.inputs.iter().any(|i| self.coins_before_restart.contains(i))) {
            self.interesting_after = true;
        }
        for t in txs {
            self.digest.extend_from_slice(&t.hash_nosigs().0 .0);
        }
        Ok(())
    }

    fn on_seal(&mut self, w: &World, ob: &SealObs, st: &mut Stats) -> Check {
        if self.shadow.is_none() && self.cold.is_none() {
            return Ok(());
        }
        let action = ob.action;
        for which in 0..2 {
        let sh = match if which == 0 { self.shadow.take() } else { self.cold.take() } {
            Some(s) => s,
            None => continue,
        };
        let pool = w.pool.clone();
        let r = catch(|| {
            pool.install(|| {
                let s = sh.seal(action);
                let h = s.header();
                (h, s.next_unsealed())
            })
        });
        match r {
            Ok((h, n)) => {
                let want = ob.sealed.header();
                if h != want {
                    let mut fields = vec![];
                    if h.coins_hash != want.coins_hash {
                        fields.push("coins_hash");
                    }
                    if h.fee_pool != want.fee_pool {
                        fields.push("fee_pool");
                    }
                    if h.fee_multiplier != want.fee_multiplier {
                        fields.push("fee_multiplier");
                    }
                    if h.dosc_speed != want.dosc_speed {
                        fields.push("dosc_speed");
                    }
                    if h.pools_hash != want.pools_hash {
                        fields.push("pools_hash");
                    }
                    if h.stakes_hash != want.stakes_hash {
                        fields.push("stakes_hash");
                    }
                    if h.transactions_hash != want.transactions_hash {
                        fields.push("transactions_hash");
                    }
                    if h.history_hash != want.history_hash {
                        fields.push("history_hash");
                    }
                    if h.previous != want.previous {
                        fields.push("previous");
                    }
                    viol!(
                        self.sig(if which == 0 { "headers-diverge" } else { "headers-diverge-cold-store" }),
                        "block {} sealed by the original and by the restarted lineage differ in {:?} (restart point had action: {}, pending tips: {}; this block has action: {})",
                        want.height,
                        fields,
                        self.restart_had_action,
                        self.restart_had_pending_tips,
                        action.is_some()
                    );
                }
                if which == 0 {
                    self.shadow = Some(n);
                } else {
                    self.cold = Some(n);
                }
            }
            Err(p) => viol!(self.sig("restarted-lineage-panics"), "sealing on the restarted lineage panicked: {}", p.message),
        }
        }
        if action.is_some() {
            self.interesting_after = true;
        }
        if self.interesting_after {
            st.nontrivial(h64(&self.digest));
            st.class("restart-followed-by-action-or-old-coin-spend");
        }
        Ok(())
    }
}

/// The restart point rebuilt in a fresh store into which only the contents of its coin, history and pool trees were
/// re-inserted (nothing else the running process may have left in the shared store). None if a root is not reproduced
/// (that is C07's concern, counted here as excluded).
fn cold_rebuild(s: &Sealed) -> Option<Sealed> {
    let db = novasmt::Database::new(novasmt::InMemoryCas::default());
    for t in [s.raw_coins_smt(), s.raw_history_smt(), s.raw_pools_smt()] {
        let mut n = db.get_tree([0; 32])?;
        for (k, v) in t.iter() {
            n.insert(k, &v);
        }
        if n.root_hash() != t.root_hash() {
            return None;
        }
    }
    Some(Sealed::from_block(&s.to_block(), &s.raw_stakes(), &db))
}

pub fn profile() -> Profile {
    let mut p = Profile::general();
    p.restart_replaces = false;
    p.p_mut = 20;
    p.lead_blocks = 8;
    p.kind_w[7] = 4;
    p.low_dosc_start = true;
    // testnet histories mostly start a few blocks below the height at which the TIPs switch on (500): a restart below
    // it, then the activation is crossed by both lineages
    p.warp = true;
    p
}

pub fn arb_restart_plan(p: &Profile) -> impl proptest::strategy::Strategy<Value = crate::plan::Plan> {
    use proptest::prelude::*;
    // force at least one Restart right after a Seal somewhere in the plan
    (crate::plan::arb_plan(p), any::<u16>(), proptest::option::weighted(0.5, (any::<i8>(), any::<u8>()))).prop_map(|(mut plan, pos, act)| {
        let i = crate::util::sel(pos, plan.steps.len() + 1);
        plan.steps.insert(i, crate::plan::Step::Restart);
        plan.steps.insert(i, crate::plan::Step::Seal(act));
        plan
    })
}

pub fn run(ctx: &Ctx) -> (Outcome, String, Option<bool>) {
    let mut p = profile();
    if ctx.thorough() {
        p.max_steps = 30;
        p.max_txs = 10;
    }
    let prof = p.clone();
    let out = crate::runner::run_sharded(
        ctx,
        "restart-histories",
        ctx.scale(1500, 15000),
        move || arb_restart_plan(&prof),
        |plan, st, shard| {
            st.eval();
            let r = crate::plan::run_plan(plan, &p, &mut C08::default(), st, shard);
            if st.want_sample() {
                st.sample(|| super::hist::plan_summary(plan));
            }
            r
        },
    );
    // a restart right after a block whose accepted mint raised the DOSC speed (real TIP-910 proof, difficulty 14)
    let mut out = out;
    let o = crate::runner::run_sharded(
        ctx,
        "restart-after-mint",
        ctx.scale(2, 12),
        || (0u8..3, proptest::bool::ANY),
        |(extra, with_action), st, shard| {
            st.eval();
            restart_after_mint(*extra, *with_action, st, shard)
        },
    );
    out.absorb(o);
    out.absorb(super::hist::run_sampled_heights(ctx, &profile(), ctx.scale(250, 2500), C08::default));
    let rule = "Also: the first phase's kind of histories on mainnet/testnet (85%) started at a height sampled anywhere below 2 000 000 (TIP-906 barrier crossed honestly first). Generated histories with a stop/restart inserted after a sealed block at a generated position (with or without proposer action at the restart point, with or without tips left uncollected), plus further random restarts; after the restart the original lineage S and the rebuilt lineage from_block(S.to_block(), S.raw_stakes(), store) are driven in lock-step with the same transactions, batches and proposer actions. Oracle: the rebuilt state has the same header; every later batch gets the same accept/reject from both; every later sealed block has the same header from both (the differing fields are reported). A third lineage is rebuilt at every restart point in a cold store - a fresh content-addressed store into which only the contents of the restart point's coin, history and pool trees were re-inserted - and driven in lock-step as well (signatures ...-cold-store). Non-trivial = a restart followed by >=1 block with a proposer action or a spend of a coin that existed before the restart; distinct by (restart header, continuation transaction hashes). A second phase restarts right after a block in which a genuine TIP-910 mint (difficulty 14) raised the DOSC speed, and compares headers for further blocks.".to_string();
    (out, rule, None)
}

pub fn replay(case: &serde_json::Value) -> Check {
    if let Ok((extra, with_action)) = serde_json::from_value::<(u8, bool)>(case.clone()) {
        let mut st = Stats::default();
        return restart_after_mint(extra, with_action, &mut st, 200);
    }
    super::hist::replay_any(case, &profile(), &profile(), C08::default())
}

fn restart_after_mint(extra: u8, with_action: bool, st: &mut Stats, shard: usize) -> Check {
    use melstructs::{CoinData, CoinID, CoinValue, Denom, NetID, ProposerAction, Transaction, TxKind};
    use crate::world::{CovSpec, GenesisSpec};
    let g = GenesisSpec {
        net: NetID::Custom02,
        init: CoinData { covhash: CovSpec::True.hash(), value: CoinValue(1 << 70), denom: Denom::Mel, additional_data: Default::default() },
        init_cov: CovSpec::True,
        fee_pool: 1 << 40,
        fee_mult: 100,
        stakes: vec![],
    };
    let mut w = World::new(g, shard);
    if !matches!(w.seal(None), O::Ok(_)) {
        return Ok(());
    }
    // mint against the genesis coin (created at height 0, header 0 exists now)
    let hdr0 = match w.header_at(0) {
        Some(h) => h,
        None => return Ok(()),
    };
    struct T910;
    impl melpow::HashFunction for T910 {
        fn hash(&self, b: &[u8], k: &[u8]) -> melpow::SVec<u8> {
            let mut r = blake3::keyed_hash(blake3::hash(k).as_bytes(), b);
            for _ in 0..99 {
                r = blake3::hash(r.as_bytes());
            }
            melpow::SVec::from_slice(r.as_bytes())
        }
    }
    let coin = CoinID::zero_zero();
    let puzzle = tmelcrypt::hash_keyed(hdr0.hash(), &stdcode::serialize(&coin).unwrap());
    let proof = melpow::Proof::generate(&puzzle, 14, T910);
    let mut tx = Transaction::new(TxKind::DoscMint);
    tx.inputs = vec![coin];
    tx.covenants = vec![CovSpec::True.bytes().into()];
    tx.data = stdcode::serialize(&(14u32, proof.to_bytes())).unwrap().into();
    tx.fee = CoinValue(1 << 30);
    tx.outputs.push(CoinData { covhash: CovSpec::True.hash(), value: CoinValue((1u128 << 70) - (1 << 30)), denom: Denom::Mel, additional_data: Default::default() });
    if !matches!(w.apply_batch(std::slice::from_ref(&tx)), O::Ok(())) {
        st.exclude("mint-rejected");
        return Ok(());
    }
    let action = if with_action { Some(ProposerAction { fee_multiplier_delta: 5, reward_dest: CovSpec::True.hash() }) } else { None };
    let s = match w.seal(action) {
        O::Ok(s) => s,
        _ => return Ok(()),
    };
    if s.header().dosc_speed <= 1_000_000 {
        st.exclude("speed-not-raised");
        return Ok(());
    }
    let r = Sealed::from_block(&s.to_block(), &s.raw_stakes(), &w.db);
    if r.header() != s.header() {
        viol!("rebuilt-header-differs", "after a block whose mint raised the DOSC speed to {}, the state rebuilt from the block has header {:?} instead of {:?}", s.header().dosc_speed, r.header(), s.header());
    }
    let (mut a, mut b) = (s.next_unsealed(), r.next_unsealed());
    for i in 0..=extra {
        let act = if i % 2 == 0 { Some(ProposerAction { fee_multiplier_delta: -3, reward_dest: CovSpec::True.hash() }) } else { None };
        let (sa, sb) = (a.seal(act), b.seal(act));
        if sa.header() != sb.header() {
            viol!("headers-diverge", "block {} after a restart that followed a speed-raising mint differs between the lineages", sa.header().height);
        }
        a = sa.next_unsealed();
        b = sb.next_unsealed();
    }
    st.nontrivial(h64(format!("mint-restart-{}-{}", extra, with_action).as_bytes()));
    st.class("restart-after-speed-raising-mint");
    Ok(())
}
