//! C20 — per-covenant coin counts equal the number of unspent coins.
use crate::evidence::{Check, Stats};
use crate::plan::{BatchObs, Monitor, Profile, SealObs};
use crate::refstf::{recount, tips_at};
use crate::runner::{Ctx, Outcome};
use crate::util::h64;
use crate::viol;
use crate::world::{Outcome as O, Snap, World};

#[derive(Default)]
pub struct C20 {
    settled: bool,
    spends: bool,
    digest: Vec<u8>,
}

fn check_counts(s: &Snap, at: &str) -> Check {
    let active = tips_at(s.net, s.height).t906;
    if !s.unknown_coin_entries.is_empty() {
        viol!("unaccounted-coin-tree-entry", "{}: coin tree holds entries that are neither coins nor counts: {:?}", at, &s.unknown_coin_entries[..1]);
    }
    let want = recount(&s.coins, active);
    if want != s.counts {
        let mut diffs = vec![];
        for (k, v) in want.iter() {
            let got = s.counts.get(k).copied();
            if got != Some(*v) {
                diffs.push(format!("{}: {} coin(s) but count entry {:?}", k.0, v, got));
            }
        }
        for (k, v) in s.counts.iter() {
            if !want.contains_key(k) {
                diffs.push(format!("{}: no coins but count entry {}", k.0, v));
            }
        }
        let kind = if !active { "count-entries-before-activation" } else if diffs.iter().any(|d| d.contains("no coins")) { "stale-count-entry" } else { "count-mismatch" };
        viol!(format!("{}-{}", kind, at), "height {}: {}", s.height, diffs.join("; "));
    }
    Ok(())
}

impl Monitor for C20 {
    fn on_start(&mut self, w: &World, _st: &mut Stats) -> Check {
        check_counts(&w.snap(), "genesis")
    }
    fn on_batch(&mut self, _w: &World, ob: &BatchObs, st: &mut Stats) -> Check {
        if let O::Ok(()) = ob.outcome {
            if ob.txs.iter().any(|t| !t.inputs.is_empty()) {
                self.spends = true;
            }
            self.digest.extend_from_slice(&ob.post.coins_root);
            st.class(if tips_at(ob.post.net, ob.post.height).t906 { "batch-with-counts-active" } else { "batch-before-activation" });
            let shape = if crate::plan::child_before_parent(ob.txs) { "after-child-first-batch" } else { "after-batch" };
            check_counts(ob.post, shape)?;
        }
        Ok(())
    }
    fn on_seal(&mut self, w: &World, ob: &SealObs, st: &mut Stats) -> Check {
        if !ob.trace.swaps.is_empty() || !ob.trace.deposits.is_empty() || !ob.trace.withdrawals.is_empty() || ob.action.is_some() {
            self.settled = true;
        }
        self.digest.extend_from_slice(&ob.post.coins_root);
        let what = if !ob.trace.deposits.is_empty() {
            "after-seal-with-deposit"
        } else if !ob.trace.withdrawals.is_empty() {
            "after-seal-with-withdrawal"
        } else if !ob.trace.swaps.is_empty() {
            "after-seal-with-swap"
        } else if ob.action.is_some() {
            "after-seal-with-reward"
        } else {
            "after-seal"
        };
        check_counts(ob.post, what)?;
        // the next block's opening state (activation happens there)
        let next = w.snap();
        if tips_at(next.net, next.height).t906 && !tips_at(ob.post.net, ob.post.height).t906 {
            st.class("crossed-activation-height");
        }
        check_counts(&next, "at-block-open")
    }
    fn on_end(&mut self, _w: &World, st: &mut Stats) -> Check {
        if self.settled && self.spends {
            st.nontrivial(h64(&self.digest));
        }
        Ok(())
    }
}

pub fn profile() -> Profile {
    let mut p = Profile::general();
    p.past_legacy_half = true;
    p.net_w = [40, 22, 26, 12, 0, 0, 0, 0, 0];
    p.p_teleport = 1;
    p.p_mut = 25;
    p.kind_w = [30, 8, 12, 16, 16, 4, 6, 2, 3];
    p.seed_funds = true;
    p.grandfathered_faucet = true;
    p.warp = true;
    p
}

pub fn run(ctx: &Ctx) -> (Outcome, String, Option<bool>) {
    let mut p = profile();
    if ctx.thorough() {
        p.max_steps = 30;
        p.max_txs = 10;
    }
    let out = super::hist::run_histories(ctx, "histories", p, ctx.scale(900, 9000), C20::default);
    let rule = "Generated histories on Custom02/Custom08 (TIP-906 active from genesis) and Testnet (26%; a share of them fast-forwarded with empty blocks to just below height 500 so that the activation is crossed with coins in place) and Mainnet (12%; height jumps land one block below 830 000 and the activation is crossed honestly): all transaction kinds, child-first batches, pool settlements, proposer rewards, faucet markers. Oracle: invariant read through the cfg(melstf_verif) view after genesis, every accepted batch, every seal and every block opening: the raw coin tree is partitioned into coin entries and count entries; for every covenant hash the count entry equals the number of coin entries, no count entry exists without coins, none exist before activation, and no unexplained entry exists. Non-trivial = history with >=1 pool settlement or proposer reward and >=1 spend; distinct by the sequence of coin roots.".to_string();
    (out, rule, None)
}

pub fn replay(case: &serde_json::Value) -> Check {
    super::hist::replay_history(case, &profile(), C20::default())
}
