//! C20 — per-covenant coin counts equal the number of unspent coins.
use crate::evidence::{Check, Stats};
use crate::plan::{BatchObs, Monitor, Profile, SealObs};
use crate::refstf::{recount, tips_at};
use crate::runner::{Ctx, Outcome};
use crate::util::h64;
use crate::viol;
use crate::world::{Outcome as O, Snap, World};

#[derive(Default)]
pub struct C20 {
    settled: bool,
    spends: bool,
    digest: Vec<u8>,
}

fn check_counts(s: &Snap, at: &str) -> Check {
    let active = tips_at(s.net, s.height).t906;
    if !s.unknown_coin_entries.is_empty() {
        viol!("unaccounted-coin-tree-entry", "{}: coin tree holds entries that are neither coins nor counts: {:?}", at, &s.unknown_coin_entries[..1]);
    }
    let want = recount(&s.coins, active);
    if want != s.counts {
        let mut diffs = vec![];
        for (k, v) in want.iter() {
            let got = s.counts.get(k).copied();
            if got != Some(*v) {
                diffs.push(format!("{}: {} coin(s) but count entry {:?}", k.0, v, got));
            }
        }
        for (k, v) in s.counts.iter() {
            if !want.contains_key(k) {
                diffs.push(format!("{}: no coins but count entry {}", k.0, v));
            }
        }
        let kind = if !active { "count-entries-before-activation" } else if diffs.iter().any(|d| d.contains("no coins")) { "stale-count-entry" } else { "count-mismatch" };
        viol!(format!("{}-{}", kind, at), "height {}: {}", s.height, diffs.join("; "));
    }
    Ok(())
}

impl Monitor for C20 {
    fn on_start(&mut self, w: &World, _st: &mut Stats) -> Check {
        check_counts(&w.snap(), "genesis")
    }
    fn on_batch(&mut self, _w: &World, ob: &BatchObs, st: &mut Stats) -> Check {
        if let O::Ok(()) = ob.outcome {
            if ob.txs.iter().any(|t| !t.inputs.is_empty()) {
                self.spends = true;
            }
            self.digest.extend_from_slice(&ob.post.coins_root);
            st.class(if tips_at(ob.post.net, ob.post.height).t906 { "batch-with-counts-active" } else { "batch-before-activation" });
            let shape = if crate::plan::child_before_parent(ob.txs) { "after-child-first-batch" } else { "after-batch" };
            check_counts(ob.post, shape)?;
        }
        Ok(())
    }
    fn on_seal(&mut self, w: &World, ob: &SealObs, st: &mut Stats) -> Check {
        if !ob.trace.swaps.is_empty() || !ob.trace.deposits.is_empty() || !ob.trace.withdrawals.is_empty() || ob.action.is_some() {
            self.settled = true;
        }
        self.digest.extend_from_slice(&ob.post.coins_root);
        let what = if !ob.trace.deposits.is_empty() {
            "after-seal-with-deposit"
        } else if !ob.trace.withdrawals.is_empty() {
            "after-seal-with-withdrawal"
        } else if !ob.trace.swaps.is_empty() {
            "after-seal-with-swap"
        } else if ob.action.is_some() {
            "after-seal-with-reward"
        } else {
            "after-seal"
        };
        check_counts(ob.post, what)?;
        // the next block's opening state (activation happens there)
        let next = w.snap();
        if tips_at(next.net, next.height).t906 && !tips_at(ob.post.net, ob.post.height).t906 {
            st.class("crossed-activation-height");
        }
        check_counts(&next, "at-block-open")
    }
    fn on_end(&mut self, _w: &World, st: &mut Stats) -> Check {
        if self.settled && self.spends {
            st.nontrivial(h64(&self.digest));
        }
        Ok(())
    }
}

pub fn profile() -> Profile {
    let mut p = Profile::general();
    p.past_legacy_half = true;
    p.net_w = [40, 22, 26, 12, 0, 0, 0, 0, 0];
    p.p_teleport = 1;
    p.p_mut = 25;
    p.kind_w = [30, 8, 12, 16, 16, 4, 6, 2, 3];
    p.seed_funds = true;
    p.grandfathered_faucet = true;
    p.warp = true;
    p
}

/// The one-off initialisation of the counts with a *large* coin set: a testnet chain whose early blocks fan the
/// genesis coin out into 300-1000 coins under 1-5 covenant hashes (plus faucet markers), fast-forwarded to the
/// activation height and across it; the counts are compared with a recount at 499, 500 and after one more batch.
#[derive(Clone, Debug, serde::Serialize, serde::Deserialize)]
pub struct BigSet {
    pub fans: Vec<(u8, u8)>,
    pub faucets: u8,
    pub spend_after: u8,
}

pub fn arb_big_set() -> impl proptest::strategy::Strategy<Value = BigSet> {
    use proptest::prelude::*;
    (proptest::collection::vec((120u8..=254, any::<u8>()), 2..5), 0u8..6, any::<u8>()).prop_map(|(fans, faucets, spend_after)| BigSet { fans, faucets, spend_after })
}

pub fn check_big_set(c: &BigSet, st: &mut Stats, shard: usize) -> Check {
    use crate::world::{CovSpec, GenesisSpec};
    use melstructs::{CoinData, CoinID, CoinValue, Denom, NetID, Transaction, TxKind};
    st.eval();
    let t = CovSpec::True;
    let covs = [CovSpec::True, CovSpec::SigNew(1), CovSpec::SigLegacy(2), CovSpec::HeightAbove(0), CovSpec::SigNew(3)];
    let out = |cov: &CovSpec, v: u128| CoinData { covhash: cov.hash(), value: CoinValue(v), denom: Denom::Mel, additional_data: Default::default() };
    let g = GenesisSpec { net: NetID::Testnet, init: out(&t, 1 << 90), init_cov: t.clone(), fee_pool: 0, fee_mult: 100, stakes: vec![] };
    let mut w = World::new(g, shard);
    let fee = 1u128 << 30;
    let unit = 1u128 << 40;
    let mut carry = (CoinID::zero_zero(), 1u128 << 90);
    let mut n_coins = 0usize;
    let mut spendable: Vec<CoinID> = vec![];
    for (fan, mix) in c.fans.iter() {
        let mut f = Transaction::new(TxKind::Normal);
        f.inputs = vec![carry.0];
        f.covenants = vec![t.bytes().into()];
        for i in 0..*fan as usize {
            // `mix` decides how many covenant hashes share the fan-out and how they interleave
            let cov = &covs[(i * (1 + (*mix as usize % 3))) % (1 + (*mix as usize / 3) % covs.len())];
            f.outputs.push(out(cov, unit));
        }
        let change = carry.1 - unit * *fan as u128 - fee;
        f.outputs.push(out(&t, change));
        f.fee = CoinValue(fee);
        let h = f.hash_nosigs();
        if !matches!(w.apply_batch(std::slice::from_ref(&f)), O::Ok(())) {
            st.exclude("fan-out-rejected");
            return Ok(());
        }
        for i in 0..*fan as usize {
            if f.outputs[i].covhash == t.hash() {
                spendable.push(CoinID::new(h, i as u8));
            }
        }
        carry = (CoinID::new(h, *fan), change);
        n_coins += *fan as usize + 1;
    }
    for i in 0..c.faucets {
        let mut fa = Transaction::new(TxKind::Faucet);
        fa.outputs.push(out(&covs[i as usize % covs.len()], 1000));
        fa.data = vec![i].into();
        fa.fee = CoinValue(fee);
        let _ = w.apply_batch(std::slice::from_ref(&fa));
    }
    check_counts(&w.snap(), "before-activation-large-set")?;
    while w.height() < 499 {
        if !matches!(w.seal(None), O::Ok(_)) {
            return Ok(());
        }
    }
    check_counts(&w.snap(), "at-499-large-set")?;
    if !matches!(w.seal(None), O::Ok(_)) {
        viol!("seal-panicked-at-activation", "sealing block 499 of a chain holding {} coins panicked", n_coins);
    }
    // the block being built is 500: the counts have just been initialised
    check_counts(&w.snap(), "at-activation-large-set")?;
    st.class(if n_coins > 256 { "activation-crossed-with-more-than-256-coins" } else { "activation-crossed-with-up-to-256-coins" });
    // spend a few coins and create others, seal, recount
    let mut sp = Transaction::new(TxKind::Normal);
    let k = 1 + (c.spend_after as usize % 6).min(spendable.len().saturating_sub(1));
    sp.inputs = spendable.iter().take(k).copied().collect();
    sp.covenants = vec![t.bytes().into()];
    if !sp.inputs.is_empty() {
        sp.outputs.push(out(&covs[c.spend_after as usize % covs.len()], unit * sp.inputs.len() as u128 - fee));
        sp.fee = CoinValue(fee);
        if matches!(w.apply_batch(std::slice::from_ref(&sp)), O::Ok(())) {
            check_counts(&w.snap(), "after-batch-past-activation-large-set")?;
        }
    }
    if matches!(w.seal(None), O::Ok(_)) {
        check_counts(&w.snap(), "after-seal-past-activation-large-set")?;
    }
    st.nontrivial(h64(format!("{:?}", c).as_bytes()));
    Ok(())
}

/// Counts walked across the widths of their serialisation: one covenant hash holding N coins with N around 250/251
/// (one-byte vs three-byte varint) and 255/256, on a network where counts are active from genesis; coins are then spent
/// one to six at a time, and created again, with a recount after every batch and seal.
#[derive(Clone, Debug, serde::Serialize, serde::Deserialize)]
pub struct CountWalk {
    pub n: u16,
    pub steps: Vec<(u8, bool)>,
}

pub fn arb_count_walk() -> impl proptest::strategy::Strategy<Value = CountWalk> {
    use proptest::prelude::*;
    (prop_oneof![248u16..262, 505u16..518, Just(251), Just(256)], proptest::collection::vec((1u8..7, any::<bool>()), 2..8)).prop_map(|(n, steps)| CountWalk { n, steps })
}

pub fn check_count_walk(c: &CountWalk, st: &mut Stats, shard: usize) -> Check {
    use crate::world::{CovSpec, GenesisSpec};
    use melstructs::{CoinData, CoinID, CoinValue, Denom, NetID, Transaction, TxKind};
    st.eval();
    let t = CovSpec::True;
    let other = CovSpec::SigNew(2);
    let out = |cov: &CovSpec, v: u128| CoinData { covhash: cov.hash(), value: CoinValue(v), denom: Denom::Mel, additional_data: Default::default() };
    // the genesis coin sits under another covenant, so that the walked hash holds exactly the fanned-out coins
    let g = GenesisSpec { net: NetID::Custom02, init: out(&other, 1 << 90), init_cov: other.clone(), fee_pool: 0, fee_mult: 100, stakes: vec![] };
    let mut w = World::new(g, shard);
    let fee = 1u128 << 30;
    let unit = 1u128 << 40;
    let mut carry = (CoinID::zero_zero(), 1u128 << 90);
    let mut coins: Vec<CoinID> = vec![];
    let mut left = c.n as usize;
    while left > 0 {
        let k = left.min(254);
        let mut f = Transaction::new(TxKind::Normal);
        f.inputs = vec![carry.0];
        f.covenants = vec![other.bytes().into()];
        for _ in 0..k {
            f.outputs.push(out(&t, unit));
        }
        let change = carry.1 - unit * k as u128 - fee;
        f.outputs.push(out(&other, change));
        f.fee = CoinValue(fee);
        f.sigs = vec![crate::world::sk(2).sign(&f.hash_nosigs().0 .0).into()];
        let h = f.hash_nosigs();
        if !matches!(w.apply_batch(std::slice::from_ref(&f)), O::Ok(())) {
            st.exclude("fan-out-rejected");
            return Ok(());
        }
        for i in 0..k {
            coins.push(CoinID::new(h, i as u8));
        }
        carry = (CoinID::new(h, k as u8), change);
        left -= k;
        check_counts(&w.snap(), "after-fan-out-count-walk")?;
    }
    if !matches!(w.seal(None), O::Ok(_)) {
        return Ok(());
    }
    check_counts(&w.snap(), "after-seal-count-walk")?;
    for (k, recreate) in c.steps.iter() {
        let k = (*k as usize).min(coins.len());
        if k == 0 {
            break;
        }
        let spent: Vec<CoinID> = coins.drain(..k).collect();
        let mut sp = Transaction::new(TxKind::Normal);
        sp.inputs = spent;
        sp.covenants = vec![t.bytes().into()];
        let total = unit * k as u128 - fee;
        if *recreate {
            // two coins come back under the walked hash
            sp.outputs.push(out(&t, total / 2));
            sp.outputs.push(out(&t, total - total / 2));
        } else {
            sp.outputs.push(out(&other, total));
        }
        sp.fee = CoinValue(fee);
        let h = sp.hash_nosigs();
        match w.apply_batch(std::slice::from_ref(&sp)) {
            O::Ok(()) => {
                if *recreate {
                    coins.push(CoinID::new(h, 0));
                    coins.push(CoinID::new(h, 1));
                }
            }
            O::Rejected(_) => {
                st.exclude("walk-spend-rejected");
                return Ok(());
            }
            O::Panicked(p) => viol!("count-update-panicked", "spending {} of {} coins of one covenant hash panicked: {}", k, coins.len() + k, p.message),
        }
        check_counts(&w.snap(), "after-batch-count-walk")?;
        st.class(match coins.len() {
            0..=250 => "walked-count-up-to-250",
            251..=255 => "walked-count-251-to-255",
            _ => "walked-count-256-or-more",
        });
        if c.n % 2 == 0 {
            match w.seal(None) {
                O::Ok(_) => check_counts(&w.snap(), "after-seal-count-walk")?,
                O::Panicked(p) => viol!("count-update-panicked", "sealing panicked with {} coins under one covenant hash: {}", coins.len(), p.message),
                _ => return Ok(()),
            }
        }
    }
    st.nontrivial(h64(format!("{:?}", c).as_bytes()));
    Ok(())
}

pub fn run(ctx: &Ctx) -> (Outcome, String, Option<bool>) {
    let mut p = profile();
    if ctx.thorough() {
        p.max_steps = 30;
        p.max_txs = 10;
    }
    let mut out = super::hist::run_histories(ctx, "histories", p, ctx.scale(900, 9000), C20::default);
    out.absorb(crate::runner::run_sharded(ctx, "count-walk", ctx.scale(12, 120), arb_count_walk, |c, st, shard| check_count_walk(c, st, shard)));
    out.absorb(crate::runner::run_sharded(ctx, "large-coin-set-at-activation", ctx.scale(3, 24), arb_big_set, |c, st, shard| check_big_set(c, st, shard)));
    out.absorb(super::hist::run_sampled_heights(ctx, &profile(), ctx.scale(250, 2500), C20::default));
    let rule = "Also: the first phase's kind of histories on mainnet/testnet (85%) started at a height sampled anywhere below 2 000 000 (TIP-906 barrier crossed honestly first). Second phase: testnet chains whose first block fans the genesis coin out into 240-1000 coins under 1-5 interleaved covenant hashes (plus faucet markers), sealed forward to height 499 and across the activation; counts compared with a recount at 499, at 500, after a batch and after a seal. First phase: generated histories on Custom02/Custom08 (TIP-906 active from genesis) and Testnet (26%; a share of them fast-forwarded with empty blocks to just below height 500 so that the activation is crossed with coins in place) and Mainnet (12%; height jumps land one block below 830 000 and the activation is crossed honestly): all transaction kinds, child-first batches, pool settlements, proposer rewards, faucet markers. Oracle: invariant read through the cfg(melstf_verif) view after genesis, every accepted batch, every seal and every block opening: the raw coin tree is partitioned into coin entries and count entries; for every covenant hash the count entry equals the number of coin entries, no count entry exists without coins, none exist before activation, and no unexplained entry exists. Non-trivial = history with >=1 pool settlement or proposer reward and >=1 spend; distinct by the sequence of coin roots.".to_string();
    (out, rule, None)
}

pub fn replay(case: &serde_json::Value) -> Check {
    if case.get("steps").is_some() && case.get("n").is_some() {
        let c: CountWalk = serde_json::from_value(case.clone()).map_err(|e| crate::evidence::Violation::new("replay-format", e.to_string()))?;
        return check_count_walk(&c, &mut Stats::default(), 200);
    }
    if case.get("fans").is_some() {
        let c: BigSet = serde_json::from_value(case.clone()).map_err(|e| crate::evidence::Violation::new("replay-format", e.to_string()))?;
        return check_big_set(&c, &mut Stats::default(), 200);
    }
    super::hist::replay_any(case, &profile(), &profile(), C20::default())
}
