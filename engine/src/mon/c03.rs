//! C03 — batch and block application is order-independent and deterministic.
use std::collections::{BTreeMap, BTreeSet, HashSet};

use melstructs::{Block, Header, Transaction, TxHash};

use crate::evidence::{Check, Stats};
use crate::plan::{has_dependency, BatchObs, Monitor, Profile, SealObs};
use crate::runner::{Ctx, Outcome};
use crate::util::{catch, h64};
use crate::viol;
use crate::world::{mk_pool, Unsealed, World};

pub struct C03 {
    pools: Vec<(usize, rayon::ThreadPool)>,
    /// verdicts on re-signed / unsigned variants of the coming batch, taken before anything of it was validated
    cold: Vec<(Vec<Transaction>, bool)>,
}

impl C03 {
    pub fn new(shard: usize) -> Self {
        C03 { pools: vec![(1, mk_pool(shard, 1)), (4, mk_pool(shard, 4))], cold: vec![] }
    }
}

fn permutations(n: usize, limit: usize, seed: u64) -> Vec<Vec<usize>> {
    let mut out: Vec<Vec<usize>> = vec![];
    let total: usize = (1..=n).product();
    if n <= 4 || total <= limit {
        // all of them (Heap's algorithm)
        let mut a: Vec<usize> = (0..n).collect();
        let mut c = vec![0usize; n];
        out.push(a.clone());
        let mut i = 0;
        while i < n {
            if c[i] < i {
                if i % 2 == 0 {
                    a.swap(0, i);
                } else {
                    a.swap(c[i], i);
                }
                out.push(a.clone());
                c[i] += 1;
                i = 0;
            } else {
                c[i] = 0;
                i += 1;
            }
        }
    } else {
        let mut s = seed | 1;
        let id: Vec<usize> = (0..n).collect();
        out.push(id.clone());
        let mut rev = id.clone();
        rev.reverse();
        out.push(rev);
        while out.len() < limit {
            let mut a = id.clone();
            for i in (1..n).rev() {
                s = s.wrapping_mul(6364136223846793005).wrapping_add(1442695040888963407);
                a.swap(i, ((s >> 33) as usize) % (i + 1));
            }
            out.push(a);
        }
    }
    out
}

/// an order in which every transaction follows those whose outputs it spends
fn topo(txs: &[Transaction]) -> Vec<usize> {
    let pos: BTreeMap<TxHash, usize> = txs.iter().enumerate().map(|(i, t)| (t.hash_nosigs(), i)).collect();
    let mut done: BTreeSet<usize> = BTreeSet::new();
    let mut order = vec![];
    while order.len() < txs.len() {
        let mut progressed = false;
        for (i, t) in txs.iter().enumerate() {
            if done.contains(&i) {
                continue;
            }
            let ready = t.inputs.iter().all(|inp| match pos.get(&inp.txhash) {
                Some(p) if *p != i => done.contains(p),
                _ => true,
            });
            if ready {
                done.insert(i);
                order.push(i);
                progressed = true;
            }
        }
        if !progressed {
            for i in 0..txs.len() {
                if done.insert(i) {
                    order.push(i);
                }
            }
        }
    }
    order
}

/// Sealing with a proposer action makes the split of fees into fee pool and tips visible in the header (the
/// reward coin holds the tips); sealing without one would fold both into the fee pool.
fn probe_action() -> Option<melstructs::ProposerAction> {
    Some(melstructs::ProposerAction { fee_multiplier_delta: 3, reward_dest: crate::world::CovSpec::True.hash() })
}

fn outcome_of(pool: &rayon::ThreadPool, st: &Unsealed, txs: &[Transaction]) -> Result<Result<Header, String>, crate::util::PanicInfo> {
    catch(|| {
        pool.install(|| {
            let mut s = st.clone();
            match s.apply_tx_batch(txs) {
                Ok(()) => Ok(s.seal(probe_action()).header()),
                Err(e) => Err(format!("{:?}", e).split('(').next().unwrap_or("").to_string()),
            }
        })
    })
}

fn variants(txs: &[Transaction]) -> Vec<Vec<Transaction>> {
    // same signature-free bodies, other signature bytes
    let mut out = vec![];
    if txs.iter().any(|t| t.sigs.iter().any(|s| !s.is_empty())) {
        let mut a = txs.to_vec();
        for t in a.iter_mut() {
            t.sigs.clear();
        }
        out.push(a);
        let mut b = txs.to_vec();
        for t in b.iter_mut() {
            for s in t.sigs.iter_mut() {
                if !s.is_empty() {
                    let mut v = s.to_vec();
                    v[9] ^= 0x04;
                    *s = v.into();
                }
            }
        }
        out.push(b);
    }
    out
}

impl Monitor for C03 {
    fn before_batch(&mut self, w: &World, txs: &[Transaction], _st: &mut Stats) -> Check {
        self.cold.clear();
        for v in variants(txs) {
            if let Ok(r) = outcome_of(&self.pools[0].1, &w.cur, &v) {
                self.cold.push((v, r.is_ok()));
            }
        }
        Ok(())
    }

    fn on_batch(&mut self, _w: &World, ob: &BatchObs, st: &mut Stats) -> Check {
        // the verdict on an identical (state, batch) pair must not depend on what this process validated before:
        // the variants judged cold (before the batch itself was validated) are judged again now
        for (v, cold_accepted) in std::mem::take(&mut self.cold) {
            if let Ok(r) = outcome_of(&self.pools[0].1, ob.pre_state, &v) {
                if r.is_ok() != cold_accepted {
                    viol!(
                        "verdict-depends-on-earlier-validations",
                        "a batch of {} transaction(s) with altered signature bytes was {} before the properly signed batch was validated in this process and is {} afterwards, against the same state",
                        v.len(),
                        if cold_accepted { "accepted" } else { "rejected" },
                        if r.is_ok() { "accepted" } else { "rejected" }
                    );
                }
                st.class("cold-vs-warm-verdict-compared");
            }
        }
        let txs = ob.txs;
        let n = txs.len();
        if n < 2 {
            return Ok(());
        }
        {
            let stakes: Vec<TxHash> = txs.iter().filter(|t| t.kind == melstructs::TxKind::Stake).map(|t| t.hash_nosigs()).collect();
            if txs.iter().any(|t| t.inputs.iter().any(|i| i.index >= 1 && stakes.contains(&i.txhash))) {
                st.class("set-with-a-stake-and-a-spend-of-its-change-output");
            }
        }
        // duplicates make "the set" smaller than the list; keep them (a repeated transaction must be judged the same way in any position)
        let perms = permutations(n, 24, h64(&ob.pre.coins_root));
        let mut reference: Option<(Vec<usize>, usize, bool, Option<Header>)> = None;
        let mut child_first_tested = false;
        for p in perms.iter() {
            let ordered: Vec<Transaction> = p.iter().map(|i| txs[*i].clone()).collect();
            if crate::plan::child_before_parent(&ordered) {
                child_first_tested = true;
            }
            for (threads, pool) in self.pools.iter() {
                let r = match outcome_of(pool, ob.pre_state, &ordered) {
                    Ok(r) => r,
                    Err(_) => {
                        st.exclude("panicked");
                        return Ok(());
                    }
                };
                let (acc, hdr) = match &r {
                    Ok(h) => (true, Some(*h)),
                    Err(_) => (false, None),
                };
                match &reference {
                    None => reference = Some((p.clone(), *threads, acc, hdr)),
                    Some((p0, t0, acc0, hdr0)) => {
                        if acc != *acc0 {
                            viol!(
                                "acceptance-depends-on-order-or-threads",
                                "a set of {} transactions is {} in order {:?} with {} thread(s) but {} in order {:?} with {} thread(s)",
                                n,
                                if *acc0 { "accepted" } else { "rejected" },
                                p0,
                                t0,
                                if acc { "accepted" } else { "rejected" },
                                p,
                                threads
                            );
                        }
                        if hdr != *hdr0 {
                            let same_order = p == p0;
                            viol!(
                                if same_order { "state-depends-on-thread-count" } else { "state-depends-on-order" },
                                "a set of {} transactions (dependency: {}) seals to different headers in order {:?} ({} thread(s)) and order {:?} ({} thread(s))",
                                n,
                                has_dependency(txs),
                                p0,
                                t0,
                                p,
                                threads
                            );
                        }
                    }
                }
                st.class("permutation-x-threads-evaluated");
            }
        }
        // one at a time, parents first
        if let Some((_, _, true, Some(h0))) = &reference {
            // "in any order in which each transaction follows those whose outputs it spends": the linearisation of
            // the set as presented, reversed and rotated
            let mut variants: Vec<Vec<Transaction>> = vec![txs.to_vec()];
            let mut rev = txs.to_vec();
            rev.reverse();
            variants.push(rev);
            if n >= 3 {
                let mut rot = txs.to_vec();
                rot.rotate_left(1);
                variants.push(rot);
            }
            let mut tried: BTreeSet<Vec<TxHash>> = BTreeSet::new();
            for v in variants.iter() {
                let order = topo(v);
                let seq: Vec<TxHash> = order.iter().map(|i| v[*i].hash_nosigs()).collect();
                if !tried.insert(seq.clone()) {
                    continue;
                }
                let pool = &self.pools[0].1;
                let r = catch(|| {
                    pool.install(|| {
                        let mut s = ob.pre_state.clone();
                        let mut seen: HashSet<TxHash> = HashSet::new();
                        for i in order.iter() {
                            if !seen.insert(v[*i].hash_nosigs()) {
                                continue;
                            }
                            s.apply_tx(&v[*i]).map_err(|e| format!("{:?}", e))?;
                        }
                        Ok::<Header, String>(s.seal(probe_action()).header())
                    })
                });
                let kinds: Vec<String> = order.iter().map(|i| format!("{:?}", v[*i].kind)).collect();
                match r {
                    Ok(Ok(h)) => {
                        if h != *h0 {
                            viol!("batch-differs-from-one-at-a-time", "a set of {} transactions applied as a batch and one at a time (parents first, order {:?}) seal to different headers", n, kinds);
                        }
                    }
                    Ok(Err(e)) => viol!("batch-accepted-but-sequence-rejected", "a set of {} transactions is accepted as a batch but applying them one at a time, parents first (order {:?}), fails: {}", n, kinds, e),
                    Err(_) => st.exclude("panicked"),
                }
                st.class("one-at-a-time-order-tried");
            }
            if txs.iter().filter(|t| t.kind == melstructs::TxKind::DoscMint).count() >= 2 {
                st.class("accepted-set-with-two-mints");
            }
            st.class("accepted-set");
        } else {
            st.class("rejected-set");
            // the other direction of "equals applying the same transactions one at a time": a set that is refused as a
            // batch must not go through when its members are applied one at a time, parents first. (Sets listing the
            // same body twice are left out: a set has no duplicates, and the one-at-a-time run would skip the copy.)
            let distinct: HashSet<TxHash> = txs.iter().map(|t| t.hash_nosigs()).collect();
            if let (Some((_, _, false, _)), true) = (&reference, distinct.len() == n) {
                let order = topo(txs);
                let pool = &self.pools[0].1;
                let r = catch(|| {
                    pool.install(|| {
                        let mut s = ob.pre_state.clone();
                        for i in order.iter() {
                            s.apply_tx(&txs[*i]).map_err(|e| format!("{:?}", e))?;
                        }
                        Ok::<(), String>(())
                    })
                });
                match r {
                    Ok(Ok(())) => {
                        let kinds: Vec<String> = order.iter().map(|i| format!("{:?}", txs[*i].kind)).collect();
                        viol!("batch-rejected-but-sequence-accepted", "a set of {} transactions is refused as a batch (in every tested order) but every one of them is accepted when they are applied one at a time, parents first (order {:?})", n, kinds);
                    }
                    Ok(Err(_)) => st.class("rejected-set-also-rejected-one-at-a-time"),
                    Err(_) => st.exclude("panicked"),
                }
            }
        }
        if has_dependency(txs) && child_first_tested {
            let mut d = ob.pre.coins_root.to_vec();
            let mut hs: Vec<[u8; 32]> = txs.iter().map(|t| t.hash_nosigs().0 .0).collect();
            hs.sort();
            for h in hs {
                d.extend_from_slice(&h);
            }
            st.nontrivial(h64(&d));
            st.class("dependent-set-with-child-first-permutation");
        }
        Ok(())
    }

    fn on_seal(&mut self, _w: &World, ob: &SealObs, st: &mut Stats) -> Check {
        // a block is an unordered set: rebuilt HashSets (fresh hash seeds) must validate identically
        let parent = match ob.parent {
            Some(p) if p.header().height.0 + 1 == ob.sealed.header().height.0 => p,
            _ => return Ok(()),
        };
        let blk = ob.sealed.to_block();
        if blk.transactions.len() < 2 {
            return Ok(());
        }
        let mut first: Option<Result<Header, String>> = None;
        for rot in 0..8usize {
            let mut v: Vec<Transaction> = blk.transactions.iter().cloned().collect();
            let r = rot % v.len();
            v.rotate_left(r);
            if rot % 2 == 1 {
                v.reverse();
            }
            let mut hs = HashSet::new();
            for t in v {
                hs.insert(t);
            }
            let b = Block { header: blk.header, transactions: hs, proposer_action: blk.proposer_action };
            let pool = &self.pools[rot % 2].1;
            let r = match catch(|| pool.install(|| parent.apply_block(&b).map(|s| s.header()).map_err(|e| format!("{:?}", e).split('(').next().unwrap_or("").to_string()))) {
                Ok(r) => r,
                Err(_) => {
                    st.exclude("panicked");
                    return Ok(());
                }
            };
            match &first {
                None => first = Some(r),
                Some(f) => {
                    if *f != r {
                        viol!("block-validation-not-deterministic", "the same block ({} transactions) validates to {:?} and to {:?} under differently built transaction sets", blk.transactions.len(), f, r);
                    }
                }
            }
        }
        st.class("block-revalidated-under-8-set-orders");
        Ok(())
    }
}

pub fn profile() -> Profile {
    let mut p = Profile::general();
    p.p_mut = 30;
    p.max_txs = 5;
    p.max_steps = 10;
    p.lead_blocks = 6;
    p.heavy_bias = true;
    p.prefer_stake_change = true;
    p.kind_w[5] = 9;
    // genuine proof-of-work mints, from a low recorded speed so that a mint raises it: several mints in one set
    p.kind_w[7] = 7;
    p.low_dosc_start = true;
    p
}

pub fn run(ctx: &Ctx) -> (Outcome, String, Option<bool>) {
    let mut p = profile();
    if ctx.thorough() {
        p.max_steps = 20;
        p.max_txs = 7;
    }
    let prof = p.clone();
    let out = crate::runner::run_sharded(
        ctx,
        "histories",
        ctx.scale(160, 1600),
        move || crate::plan::arb_plan(&prof),
        |plan, st, shard| {
            st.eval();
            let mut m = C03::new(shard);
            let r = crate::plan::run_plan(plan, &p, &mut m, st, shard);
            if st.want_sample() {
                st.sample(|| super::hist::plan_summary(plan));
            }
            r
        },
    );
    let mut out = out;
    if ctx.thorough() {
        let o = cross_process(ctx, 48);
        out.absorb(o);
    }
    let mut out = out;
    out.absorb(crate::runner::run_sharded(ctx, "big-honest-blocks", ctx.scale(4, 48), super::c06::arb_big_block, |c, st, shard| super::c06::check_big_block(c, st, shard)));
    let rule = "Also: honest blocks of 150-420 transactions with dependencies (C06's big-block scenarios) must be accepted by their parent under 4 differently ordered transaction sets. For every batch of >=2 transactions met in generated histories (independent, chains, fan-in/fan-out, repeated, mutated; acceptable and unacceptable), from the state it was generated for: every permutation (all n! for n<=4, otherwise identity, reverse and 22 pseudo-random ones) x rayon pools of 1 and 4 threads; (accepted?, header of apply_tx_batch(perm).seal(with a fixed proposer action, so that the fee-pool / tips split is visible)) must be identical for all, and - when accepted - equal to applying the transactions one at a time in up to three different orders in which parents precede children (the set as presented, reversed, rotated). A set that is refused as a batch (and lists no body twice) must also be refused - at some member - when applied one at a time, parents first. Sets include genuine proof-of-work mints (7%) from a low recorded DOSC speed. Every sealed block with >=2 transactions is re-validated by its parent through apply_block under 8 differently built HashSets (fresh RandomState, rotated/reversed insertion) on alternating pool sizes and must give the same result. Before a batch is applied, variants of it with the same signature-free bodies but stripped / bit-flipped signatures are judged on a scratch copy; they are judged again after the properly signed batch has been validated and must get the same verdict (the outcome may not depend on what the process validated earlier). Thorough tier only: 48 generated histories are additionally executed in two fresh child processes each (own hash seeds, nothing validated before) and must give the same accept/reject sequence and header hashes as in the warmed-up parent process. Non-trivial = a set with a dependency for which a tested permutation puts a child before its parent; distinct by (pre-state coin root, set of transaction hashes).".to_string();
    (out, rule, None)
}

pub fn replay(case: &serde_json::Value) -> Check {
    if case.get("fan").is_some() {
        return super::c06::replay(case);
    }
    super::hist::replay_history(case, &profile(), C03::new(200))
}

/// Records what a history does: accept/reject of every batch and the header hash of every sealed block.
#[derive(Default)]
pub struct Recorder {
    pub log: Vec<String>,
}

impl Monitor for Recorder {
    fn on_batch(&mut self, _w: &World, ob: &BatchObs, _st: &mut Stats) -> Check {
        self.log.push(match ob.outcome {
            crate::world::Outcome::Ok(()) => "batch:accepted".into(),
            crate::world::Outcome::Rejected(_) => "batch:rejected".into(),
            crate::world::Outcome::Panicked(_) => "batch:panicked".into(),
        });
        Ok(())
    }
    fn on_seal(&mut self, _w: &World, ob: &SealObs, _st: &mut Stats) -> Check {
        self.log.push(format!("seal:{}", hex::encode(ob.sealed.header().hash().0)));
        Ok(())
    }
}

pub fn record_plan(plan: &crate::plan::Plan, shard: usize) -> Vec<String> {
    let mut r = Recorder::default();
    let mut st = Stats::default();
    let _ = crate::plan::run_plan(plan, &profile(), &mut r, &mut st, shard);
    r.log
}

/// Thorough tier: the same histories are executed in this (warmed-up) process and in fresh child processes
/// (own hash seeds, nothing validated before) and must produce the same accept/reject decisions and headers.
pub fn cross_process(ctx: &Ctx, n_plans: usize) -> Outcome {
    use proptest::strategy::{Strategy, ValueTree};
    use proptest::test_runner::{Config, RngAlgorithm, TestRng, TestRunner};
    let mut out = Outcome::empty();
    let seed = blake3::hash(format!("c03-cross-process-{}", ctx.seed).as_bytes());
    let mut runner = TestRunner::new_with_rng(Config::default(), TestRng::from_seed(RngAlgorithm::ChaCha, seed.as_bytes()));
    let prof = profile();
    let exe = match std::env::current_exe() {
        Ok(e) => e,
        Err(_) => return out,
    };
    let dir = crate::evidence::verif_root().join("replays").join("C03").join("cross-process-tmp");
    let _ = std::fs::create_dir_all(&dir);
    for i in 0..n_plans {
        let plan = match crate::plan::arb_plan(&prof).new_tree(&mut runner) {
            Ok(t) => t.current(),
            Err(_) => continue,
        };
        let here = std::thread::Builder::new()
            .name("s210".into())
            .stack_size(256 << 20)
            .spawn({
                let plan = plan.clone();
                move || record_plan(&plan, 210)
            })
            .unwrap()
            .join()
            .unwrap_or_default();
        let f = dir.join(format!("plan-{}.json", i));
        if std::fs::write(&f, serde_json::to_vec(&plan).unwrap()).is_err() {
            continue;
        }
        out.stats.evals += 1;
        let mut agree = true;
        for _ in 0..2 {
            let o = std::process::Command::new(&exe).arg("exec-plan").arg("C03").arg(&f).output();
            let there: Vec<String> = match o {
                Ok(o) if o.status.success() => serde_json::from_slice(&o.stdout).unwrap_or_default(),
                _ => {
                    out.stats.exclude("child-process-failed");
                    continue;
                }
            };
            if there != here {
                agree = false;
                let first = here.iter().zip(there.iter()).position(|(a, b)| a != b).unwrap_or(here.len().min(there.len()));
                let viol = crate::evidence::Violation::new(
                    "result-differs-between-processes",
                    format!(
                        "the same history gives different results in this process and in a fresh one, first at step {}: here {:?}, there {:?}",
                        first,
                        here.get(first),
                        there.get(first)
                    ),
                );
                let body = serde_json::json!({"property": "C03", "seed": ctx.seed, "tier": ctx.tier, "phase": "cross-process", "signature": viol.signature, "detail": viol.detail, "case": plan});
                let p = crate::evidence::write_replay("C03", &viol.signature, &body);
                out.violations.push((viol, p));
                break;
            }
        }
        if agree && here.iter().filter(|l| l.starts_with("seal:")).count() >= 2 {
            out.stats.nontrivial(h64(here.join("|").as_bytes()));
            out.stats.class("history-identical-in-two-fresh-processes");
        }
        let _ = std::fs::remove_file(&f);
        if !out.violations.is_empty() {
            break;
        }
    }
    let _ = std::fs::remove_dir_all(&dir);
    out
}
