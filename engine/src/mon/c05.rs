//! C05 — fees: minimum fee enforced, fee pool / tips / proposer reward accounted exactly.
use melstructs::{BlockHeight, CoinData, CoinID, CoinValue, Denom, NetID, Transaction, TxKind};
use proptest::prelude::*;
use serde_json::json;

use crate::evidence::{Check, Stats, Violation};
use crate::plan::{BatchObs, Monitor, Profile, SealObs};
use crate::refstf;
use crate::refvm::{self, ROp};
use crate::runner::{run_sharded, Ctx, Outcome};
use crate::util::h64;
use crate::viol;
use crate::world::{CovSpec, GenesisSpec, Outcome as O, World};

#[derive(Default)]
pub struct C05;

impl Monitor for C05 {
    fn on_batch(&mut self, _w: &World, ob: &BatchObs, st: &mut Stats) -> Check {
        if let O::Ok(()) = ob.outcome {
            let mut sum_min: u128 = 0;
            let mut sum_tip: u128 = 0;
            for tx in ob.txs.iter() {
                let min = refstf::min_fee(tx, ob.pre.fee_mult);
                if tx.fee.0 < min {
                    viol!(
                        "accepted-below-minimum-fee",
                        "a {:?} transaction with fee {} was accepted although weight {} x multiplier {} / 65536 = {}",
                        tx.kind,
                        tx.fee.0,
                        refstf::tx_weight(tx),
                        ob.pre.fee_mult,
                        min
                    );
                }
                sum_min = sum_min.saturating_add(min);
                sum_tip = sum_tip.saturating_add(tx.fee.0 - min);
                if min > 0 && tx.fee.0 <= min + 1 {
                    st.nontrivial(h64(&tx.hash_nosigs().0 .0));
                    st.class("fee-within-1-of-nonzero-minimum-accepted");
                }
            }
            // the minimum fee is a function of the transaction as submitted: the same transaction with padded
            // signatures (same hash_nosigs, larger encoding) must be judged by its own weight, whatever was
            // weighed before in this process
            if let Some(tx) = ob.txs.first() {
                let mut padded = tx.clone();
                padded.sigs.push(vec![0u8; 64].into());
                padded.sigs.push(vec![0u8; 200].into());
                let minp = refstf::min_fee(&padded, ob.pre.fee_mult);
                let mut scratch = ob.pre_state.clone();
                let pool = _w.pool.clone();
                if let Ok(Ok(())) = crate::util::catch(|| pool.install(|| scratch.apply_tx(&padded))) {
                    if padded.fee.0 < minp {
                        viol!(
                            "padded-spelling-accepted-below-its-minimum-fee",
                            "a transaction paying {} is accepted with 264 extra signature bytes although that spelling's minimum fee is {} (multiplier {})",
                            padded.fee.0,
                            minp,
                            ob.pre.fee_mult
                        );
                    }
                    st.class("padded-spelling-accepted");
                } else if padded.fee.0 < minp {
                    st.class("padded-spelling-rejected-below-minimum");
                }
            }
            let want_pool = ob.pre.fee_pool.saturating_add(sum_min);
            let want_tips = ob.pre.tips.saturating_add(sum_tip);
            if ob.post.fee_pool != want_pool {
                viol!("fee-pool-accounting", "fee pool {} -> {} but the minimum fees of the batch add up to {}", ob.pre.fee_pool, ob.post.fee_pool, sum_min);
            }
            if ob.post.tips != want_tips {
                viol!("tips-accounting", "tips {} -> {} but the fee surpluses of the batch add up to {}", ob.pre.tips, ob.post.tips, sum_tip);
            }
        } else if let O::Rejected(_) = ob.outcome {
            for tx in ob.txs.iter() {
                let min = refstf::min_fee(tx, ob.pre.fee_mult);
                if min > 0 && tx.fee.0 + 1 == min {
                    st.nontrivial(h64(&tx.hash_nosigs().0 .0));
                    st.class("fee-one-below-minimum-rejected");
                }
            }
        }
        Ok(())
    }

    fn on_seal(&mut self, _w: &World, ob: &SealObs, st: &mut Stats) -> Check {
        let reward_id = CoinID::proposer_reward(BlockHeight(ob.pre.height));
        match ob.action {
            None => {
                if ob.post.coins.contains_key(&reward_id) {
                    viol!("reward-without-action", "block {} was sealed without a proposer action but a reward coin exists", ob.pre.height);
                }
            }
            Some(a) => {
                let c = match ob.post.coins.get(&reward_id) {
                    None => viol!("no-reward-coin", "block {} sealed with a proposer action has no reward coin", ob.pre.height),
                    Some(c) => c,
                };
                if c.coin_data.denom != Denom::Mel || c.coin_data.covhash != a.reward_dest {
                    viol!("reward-coin-shape", "reward coin of block {} is in {} to {}, expected MEL to {}", ob.pre.height, c.coin_data.denom, c.coin_data.covhash.0, a.reward_dest.0);
                }
                let reward = c.coin_data.value.0;
                // X = fee pool after Melmint and subsidy, before the reward: reward + remaining pool = X + tips
                let x = match (ob.post.fee_pool.checked_add(reward)).and_then(|v| v.checked_sub(ob.pre.tips)) {
                    Some(x) => x,
                    None => viol!("reward-amount", "reward {} is smaller than the tips {} it must include", reward, ob.pre.tips),
                };
                let base = x >> 16;
                if reward != base.saturating_add(ob.pre.tips) {
                    viol!(
                        "reward-amount",
                        "block {}: reward coin {} but fee pool before the reward {} / 65536 = {} plus tips {} = {}",
                        ob.pre.height,
                        reward,
                        x,
                        base,
                        ob.pre.tips,
                        base.saturating_add(ob.pre.tips)
                    );
                }
                if ob.post.fee_pool != x - base {
                    viol!("fee-pool-after-reward", "fee pool after the reward is {}, expected {} - {}", ob.post.fee_pool, x, base);
                }
                // the pool before the reward is the batch-time pool plus the subsidy the reference computes
                let x_ref = ob.ref_post.fee_pool.saturating_add(ob.trace.reward.unwrap_or(0).saturating_sub(ob.pre.tips));
                if x != x_ref && ob.trace.unspecified.is_none() {
                    viol!("fee-pool-before-reward", "block {}: fee pool before the reward is {} but batch-time pool {} plus subsidy gives {}", ob.pre.height, x, ob.pre.fee_pool, x_ref);
                }
                if ob.post.tips != 0 {
                    viol!("tips-not-cleared", "tips are {} after the proposer collected them", ob.post.tips);
                }
                if ob.pre.tips > 0 {
                    st.nontrivial(h64(&ob.post.coins_root));
                    st.class("sealed-with-action-and-nonzero-tips");
                }
            }
        }
        Ok(())
    }
}

pub fn profile() -> Profile {
    let mut p = Profile::general();
    p.net_w = [45, 25, 15, 15, 0, 0, 0, 0, 0];
    p.p_mut = 50;
    p.heavy_bias = true;
    p
}

// ---- single-transaction shape exploration through faucets (no inputs needed, every size reachable)

#[derive(Clone, Debug, serde::Serialize, serde::Deserialize)]
pub struct Shape {
    pub n_out: u8,
    pub data_len: u16,
    pub covs: Vec<(u8, u16, u16)>, // (family, iterations, body)
    pub mult: u8,
    pub fee_off: i8, // relative to min: -1, 0, +1, +tip
    pub sigs: u8,
}

fn cov_bytes(f: u8, a: u16, b: u16) -> Vec<u8> {
    // the standard signature covenants, genuine and as near-misses: same length and prefix, another tail (two
    // maximal hashes weigh 131 200 instead of the template's 166), or one byte changed anywhere
    if f % 12 >= 8 {
        let legacy = f % 12 == 10;
        let c = if legacy { CovSpec::SigLegacy(a as usize) } else { CovSpec::SigNew(a as usize) };
        let mut v = c.bytes();
        match f % 12 {
            8 => {}
            9 | 10 => {
                let tail = refvm::encode(&[ROp::Hash(b), ROp::Hash(65535 - (a % 7))]).unwrap();
                let n = v.len();
                if tail.len() <= n && b % 3 != 0 {
                    v[n - tail.len()..].copy_from_slice(&tail);
                }
            }
            _ => {
                if b % 2 == 0 {
                    // a run of whole instructions replaced by loops and no-ops of the same length
                    return crate::vmgen::near_miss_std(((a as u64) << 16) | b as u64);
                }
                let n = v.len();
                v[(a as usize * 31 + b as usize) % n] = (b >> 8) as u8 ^ (b as u8);
            }
        }
        return v;
    }
    let ops = match f % 12 {
        6 => vec![ROp::Loop(a, 65535), ROp::Hash(b), ROp::Noop], // body overruns the end of the program
        7 => vec![ROp::Noop, ROp::Loop(3, 2), ROp::Loop(a, 50), ROp::Hash(b), ROp::Add], // inner body overruns the enclosing body
        5 => {
            // k nested loops of `a` iterations around one noop: weight ~ a^k, saturating from k = 8 at a = 65535
            let k = 1 + (b % 10) as usize;
            let mut v: Vec<ROp> = (0..k).map(|i| ROp::Loop(a, (k - i) as u16)).collect();
            v.push(ROp::Noop);
            v
        }
        0 => vec![ROp::PushIC([0; 32])],
        1 => vec![ROp::Loop(a, 2), ROp::Noop, ROp::Noop, ROp::Hash(b)],
        2 => vec![ROp::Loop(a, 3), ROp::Loop(b % 50, 1), ROp::Noop, ROp::Add],
        3 => return vec![0xb0, 0x01, 0x02, f, (a & 0xff) as u8], // may be undecodable
        _ => vec![ROp::SigEOk(a), ROp::Exp((b & 0xff) as u8), ROp::PushB(vec![7; (b % 200) as u8 as usize])],
    };
    refvm::encode(&ops).unwrap()
}

pub fn mult_class(c: u8) -> u128 {
    [0u128, 1, 2, 100, 65535, 65536, 1_000_000, 1 << 40, 1 << 64, 1 << 100][c as usize % 10]
}

pub fn check_shape(s: &Shape, st: &mut Stats, shard: usize) -> Check {
    check_shape_with(s, st, shard, false)
}

pub fn check_shape_with(s: &Shape, st: &mut Stats, shard: usize, panic_is_violation: bool) -> Check {
    st.eval();
    let mult = mult_class(s.mult);
    let g = GenesisSpec {
        net: NetID::Custom02,
        init: CoinData { covhash: CovSpec::True.hash(), value: CoinValue(1 << 60), denom: Denom::Mel, additional_data: Default::default() },
        init_cov: CovSpec::True,
        fee_pool: 12345,
        fee_mult: mult,
        stakes: vec![],
    };
    let mut w = World::new(g, shard);
    let mut tx = Transaction::new(TxKind::Faucet);
    for i in 0..s.n_out {
        tx.outputs.push(CoinData {
            covhash: CovSpec::True.hash(),
            value: CoinValue(i as u128),
            denom: Denom::Mel,
            additional_data: Default::default(),
        });
    }
    tx.data = vec![0x42; s.data_len as usize].into();
    tx.covenants = s.covs.iter().map(|(f, a, b)| cov_bytes(*f, *a, *b).into()).collect();
    tx.sigs = (0..s.sigs % 4).map(|_| vec![9u8; 64].into()).collect();
    // fee at the fixed point of weight -> fee -> size
    let mut fee = 0u128;
    for _ in 0..6 {
        tx.fee = CoinValue(fee.min(refstf::MAX_COINVAL));
        let m = refstf::min_fee(&tx, mult);
        if m == fee {
            break;
        }
        fee = m;
    }
    let min0 = refstf::min_fee(&tx, mult);
    let target = match s.fee_off {
        -1 => min0.checked_sub(1),
        0 => Some(min0),
        1 => min0.checked_add(1),
        _ => min0.checked_add(987_654),
    };
    let target = match target {
        Some(t) if t <= refstf::MAX_COINVAL => t,
        _ => {
            st.exclude("fee-class-not-representable");
            return Ok(());
        }
    };
    tx.fee = CoinValue(target);
    let min = refstf::min_fee(&tx, mult); // re-evaluate with the final encoding
    // a heavier spelling of the same transaction (same hash_nosigs) is tried first on a scratch copy; what it
    // does there must not influence the judgement of the real one
    {
        let mut padded = tx.clone();
        padded.sigs.push(vec![7u8; 300].into());
        let minp = refstf::min_fee(&padded, mult);
        let mut scratch = w.cur.clone();
        let pool = w.pool.clone();
        if let Ok(Ok(())) = crate::util::catch(|| pool.install(|| scratch.apply_tx(&padded))) {
            if padded.fee.0 < minp {
                viol!("padded-spelling-accepted-below-its-minimum-fee", "shape {:?}: padded spelling with fee {} accepted, its minimum is {}", s, padded.fee.0, minp);
            }
        }
    }
    let pre = w.snap();
    let r = w.apply_batch(std::slice::from_ref(&tx));
    let post = w.snap();
    match r {
        O::Ok(()) => {
            if target < min {
                viol!("accepted-below-minimum-fee", "faucet shape {:?}: fee {} accepted, minimum {} (weight {} x multiplier {})", s, target, min, refstf::tx_weight(&tx), mult);
            }
            if post.fee_pool != pre.fee_pool.saturating_add(min) || post.tips != pre.tips.saturating_add(target - min) {
                viol!(
                    "fee-split",
                    "shape {:?}: fee {} with minimum {}: fee pool {} -> {}, tips {} -> {}",
                    s,
                    target,
                    min,
                    pre.fee_pool,
                    post.fee_pool,
                    pre.tips,
                    post.tips
                );
            }
            st.class("shape-accepted");
        }
        O::Rejected(e) => {
            if target >= min && e.contains("InsufficientFees") {
                viol!("rejected-at-or-above-minimum-fee", "shape {:?}: fee {} rejected ({}), minimum is {}", s, target, e, min);
            }
            st.class("shape-rejected");
        }
        O::Panicked(p) => {
            if panic_is_violation {
                return Err(Violation::new(p.signature(), format!("apply_tx_batch panicked on a faucet of shape {:?}: {} at {} (via {:?})", s, p.message, p.location, p.callers)));
            }
            st.exclude("panicked");
            return Ok(());
        }
    }
    if min > 0 && (target as i128 - min as i128).abs() <= 1 {
        st.nontrivial(h64(&stdcode::serialize(&tx).unwrap()));
    }
    st.class(&format!("multiplier-class-{}", s.mult % 10));
    Ok(())
}

pub fn arb_shape() -> impl Strategy<Value = Shape> {
    (
        prop_oneof![Just(0u8), Just(1), Just(2), Just(254), Just(255), any::<u8>()],
        prop_oneof![Just(0u16), Just(1), 0u16..4096],
        proptest::collection::vec((any::<u8>(), prop_oneof![Just(0u16), Just(1), Just(65535), any::<u16>()], any::<u16>()), 0..5),
        any::<u8>(),
        prop_oneof![Just(-1i8), Just(0), Just(1), Just(5)],
        any::<u8>(),
    )
        .prop_map(|(n_out, data_len, covs, mult, fee_off, sigs)| Shape { n_out, data_len, covs, mult, fee_off, sigs })
}

pub fn run(ctx: &Ctx) -> (Outcome, String, Option<bool>) {
    let mut p = profile();
    if ctx.thorough() {
        p.max_steps = 30;
        p.max_txs = 10;
    }
    let mut out = super::hist::run_histories(ctx, "histories", p, ctx.scale(300, 4000), C05::default);
    let o = run_sharded(
        ctx,
        "transaction-shapes",
        ctx.scale(700, 9000),
        arb_shape,
        |s, st, shard| {
            let r = check_shape(s, st, shard);
            if st.want_sample() {
                st.sample(|| json!(s));
            }
            r
        },
    );
    out.absorb(o);
    out.absorb(super::hist::run_sampled_heights(ctx, &profile(), ctx.scale(150, 1500), C05::default));
    let rule = "Also: the first phase's kind of histories on mainnet/testnet (85%) started at a height sampled anywhere below 2 000 000 (TIP-906 barrier crossed honestly first). Two generators. (1) Histories as for C01 on four network classes with fee classes min / min+1 / min+tip and the fee-1 mutation, with and without proposer actions. (2) Single transactions of every shape built as faucets on a custom network: 0-255 outputs, data 0-4 KiB, 0-4 covenants with weights from 1 to saturation (nested 65535-iteration loops) including undecodable ones and the standard signature covenants, genuine and as near-misses (same length and prefix with another tail, or one byte changed), 0-3 signatures, multipliers {0,1,2,100,65535,65536,10^6,2^40,2^64,2^100}, fee at min-1 / min / min+1 / min+tip where min is taken at the fixed point of weight->fee->encoding. Oracle: min = floor(sat(weight x multiplier)/65536) with weight = stdcode length + sum of RefVM covenant weights + 1000 x outputs - 1000 x inputs floored at 0; accepted => fee >= min; fee >= min is never rejected for insufficient fees; fee pool grows by exactly min and tips by fee - min (view hook); sealing with an action creates one coin at proposer_reward(height) worth (fee pool of the same block sealed without action) >> 16 plus all tips, the header's fee pool is lower by exactly that first term, tips are zero afterwards; no action => no reward coin (what happens to uncollected tips is not specified by the property). Non-trivial = fee within +-1 of a non-zero minimum, or a block sealed with an action and non-zero tips.".to_string();
    (out, rule, None)
}

pub fn replay(case: &serde_json::Value) -> Check {
    if let Ok(s) = serde_json::from_value::<Shape>(case.clone()) {
        let mut st = Stats::default();
        return check_shape(&s, &mut st, 200);
    }
    if case.get("cfg").is_some() {
        return super::hist::replay_any(case, &profile(), &profile(), C05::default());
    }
    Err(Violation::new("replay-format", "cannot interpret replay case"))
}
