//! C11 — covenant cost is bounded by what is paid for.
use std::collections::HashMap;

use proptest::prelude::*;
use serde_json::json;

use crate::evidence::{Check, Stats, Violation};
use crate::refvm::{self, ROp};
use crate::runner::{run_sharded, Ctx, Outcome};
use crate::util::{catch, h64};
use crate::viol;

fn be(v: u128) -> [u8; 32] {
    let mut b = [0u8; 32];
    b[16..].copy_from_slice(&v.to_be_bytes());
    b
}

#[derive(Clone, Debug, serde::Serialize, serde::Deserialize)]
pub enum Cost {
    /// a standard signature covenant with a run of instructions replaced by loops / no-ops of the same length
    NearMiss(u64),
    /// nested loops: (iterations, body length) per level, then a tiny body
    Nest { levels: Vec<(u16, u16)>, body: Vec<(u8, u64)>, tail: Vec<(u8, u64)> },
    /// doubling prefix then a consumer
    Doubling { vector: bool, k: u8, consumer: u8, arg: u64 },
    /// anything from the typed generator
    Typed(Vec<(u8, u64)>),
    /// jump-heavy
    Jumps(Vec<(u8, u16)>),
    /// doubling inside a counted loop: lengths pass 2^64 after ~60 cheap iterations
    LoopDoubling { vector: bool, iters: u16, consumer: u8 },
}

pub fn build(c: &Cost) -> Vec<ROp> {
    match c {
        Cost::NearMiss(sel) => refvm::decode(&crate::vmgen::near_miss_std(*sel)).unwrap_or_default(),
        Cost::Nest { levels, body, tail } => {
            let mut ops = vec![];
            let inner = crate::vmgen::build_program(body);
            for (n, m) in levels {
                ops.push(ROp::Loop(*n, *m));
            }
            ops.extend(inner);
            ops.extend(crate::vmgen::build_program(tail));
            ops
        }
        Cost::Doubling { vector, k, consumer, arg } => {
            let mut ops = vec![];
            // consumers 13-15 never materialise the doubled value, so it can be far larger (2^40..2^58 elements held
            // in shared nodes): what they probe is work that is proportional to the *logical* size of a value
            let deep = matches!(consumer % 16, 13 | 14 | 15);
            let k = &(if deep { 40 + (*arg % 19) as u8 } else { *k });
            if *vector {
                ops.push(ROp::PushIC(be(7)));
                ops.push(ROp::VEmpty);
                ops.push(ROp::VPush);
                for _ in 0..*k {
                    ops.push(ROp::Dup);
                    ops.push(ROp::VAppend);
                }
            } else {
                ops.push(ROp::PushB(vec![0xab; 32]));
                for _ in 0..*k {
                    ops.push(ROp::Dup);
                    ops.push(ROp::BAppend);
                }
            }
            // consumers: operands are pushed *under* the big value where needed via storeimm/loadimm
            let a = (*arg % 70000) as u128;
            let with_under = |ops: &mut Vec<ROp>, under: Vec<ROp>, op: ROp| {
                ops.push(ROp::StoreImm(200));
                ops.extend(under);
                ops.push(ROp::LoadImm(200));
                ops.push(op);
            };
            match (consumer % 16, *vector) {
                (0, false) => ops.push(ROp::BtoI),
                (1, false) => ops.push(ROp::Hash((*arg % 65536) as u16)),
                (2, false) => ops.push(ROp::BLength),
                (3, false) => with_under(&mut ops, vec![ROp::PushIC(be(a))], ROp::BRef),
                (4, false) => with_under(&mut ops, vec![ROp::PushIC(be(a + 5)), ROp::PushIC(be(a))], ROp::BSlice),
                (5, false) => with_under(&mut ops, vec![ROp::PushIC(be(1)), ROp::PushIC(be(a))], ROp::BSet),
                (6, false) => with_under(&mut ops, vec![ROp::PushIC(be(1))], ROp::BPush),
                (7, false) => {
                    ops.push(ROp::PushIC(be(3)));
                    ops.push(ROp::BCons)
                }
                (8, false) => {
                    // sigeok with the big value as message / key / signature
                    match arg % 3 {
                        0 => with_under(&mut ops, vec![ROp::PushB(vec![1; 64]), ROp::PushB(vec![2; 32])], ROp::SigEOk((*arg >> 2) as u16)),
                        1 => {
                            ops.push(ROp::StoreImm(200));
                            ops.push(ROp::PushB(vec![1; 64]));
                            ops.push(ROp::LoadImm(200));
                            ops.push(ROp::PushB(vec![3; 20]));
                            ops.push(ROp::SigEOk(100));
                        }
                        _ => {
                            ops.push(ROp::PushB(vec![2; 32]));
                            ops.push(ROp::PushB(vec![3; 20]));
                            ops.push(ROp::SigEOk(100));
                        }
                    }
                }
                (9, _) => ops.push(ROp::TypeQ),
                (10, _) => ops.push(ROp::Dup),
                (11, _) => {
                    ops.push(ROp::PushIC(be(1)));
                    ops.push(ROp::Eql)
                }
                (12, _) => {
                    ops.push(ROp::StoreImm(3));
                    ops.push(ROp::LoadImm(3));
                }
                (13, _) => {
                    // the doubled value H sits in slot 0 of a vector and an equal H is written over it: [H] 0 H vset
                    ops.push(ROp::StoreImm(200));
                    ops.push(ROp::LoadImm(200));
                    ops.push(ROp::PushIC(be(0)));
                    ops.push(ROp::LoadImm(200));
                    ops.push(ROp::VEmpty);
                    ops.push(ROp::VPush);
                    ops.push(ROp::VSet);
                }
                (14, _) => {
                    // [x, H] with H written over slot 1, then the result stored and loaded again
                    ops.push(ROp::StoreImm(200));
                    ops.push(ROp::LoadImm(200));
                    ops.push(ROp::PushIC(be(1)));
                    ops.push(ROp::LoadImm(200));
                    ops.push(ROp::PushIC(be(*arg as u128)));
                    ops.push(ROp::VEmpty);
                    ops.push(ROp::VPush);
                    ops.push(ROp::VPush);
                    ops.push(ROp::VSet);
                    ops.push(ROp::StoreImm(201));
                    ops.push(ROp::LoadImm(201));
                }
                (15, _) => {
                    // two equal huge values next to each other in a vector, one of them fetched back and measured
                    ops.push(ROp::Dup);
                    ops.push(ROp::VEmpty);
                    ops.push(ROp::VPush);
                    ops.push(ROp::VPush);
                    ops.push(ROp::Dup);
                    ops.push(ROp::StoreImm(202));
                    ops.push(ROp::PushIC(be(1)));
                    ops.push(ROp::LoadImm(202));
                    ops.push(ROp::VRef);
                    ops.push(ROp::TypeQ);
                }
                (_, true) => match consumer % 6 {
                    0 => ops.push(ROp::VLength),
                    1 => with_under(&mut ops, vec![ROp::PushIC(be(a))], ROp::VRef),
                    2 => with_under(&mut ops, vec![ROp::PushIC(be(a + 5)), ROp::PushIC(be(a))], ROp::VSlice),
                    3 => with_under(&mut ops, vec![ROp::PushIC(be(1)), ROp::PushIC(be(a))], ROp::VSet),
                    4 => with_under(&mut ops, vec![ROp::PushIC(be(1))], ROp::VPush),
                    _ => {
                        ops.push(ROp::PushIC(be(3)));
                        ops.push(ROp::VCons)
                    }
                },
                _ => ops.push(ROp::BLength),
            }
            ops
        }
        Cost::LoopDoubling { vector, iters, consumer } => {
            let mut ops = vec![];
            if *vector {
                ops.push(ROp::PushIC(be(7)));
                ops.push(ROp::VEmpty);
                ops.push(ROp::VPush);
                ops.push(ROp::Loop(*iters, 2));
                ops.push(ROp::Dup);
                ops.push(ROp::VAppend);
                ops.push(match consumer % 3 {
                    0 => ROp::VLength,
                    1 => ROp::TypeQ,
                    _ => ROp::Dup,
                });
            } else {
                ops.push(ROp::PushB(vec![0xcd; 1 + (*consumer as usize % 40)]));
                ops.push(ROp::Loop(*iters, 2));
                ops.push(ROp::Dup);
                ops.push(ROp::BAppend);
                ops.push(match consumer % 4 {
                    0 => ROp::BLength,
                    1 => ROp::BtoI,
                    2 => ROp::Hash(64),
                    _ => ROp::TypeQ,
                });
            }
            ops
        }
        Cost::Typed(ch) => crate::vmgen::build_program(ch),
        Cost::Jumps(js) => {
            let mut ops = vec![];
            for (k, j) in js {
                ops.push(ROp::PushIC(be((*k % 2) as u128)));
                ops.push(match k % 5 {
                    0 => ROp::Bez(*j % 6),
                    1 => ROp::Bnz(*j % 6),
                    2 => ROp::Jmp(*j % 6),
                    3 => ROp::Loop(*j % 4, (*j >> 4) % 5),
                    _ => ROp::Noop,
                });
            }
            ops
        }
    }
}

fn max_nesting(ops: &[ROp]) -> usize {
    // syntactic nesting: number of enclosing loop bodies at each position
    let mut ends: Vec<usize> = vec![];
    let mut best = 0;
    for (i, op) in ops.iter().enumerate() {
        ends.retain(|e| *e > i);
        if let ROp::Loop(_, m) = op {
            ends.push(i + 1 + *m as usize);
            best = best.max(ends.len());
        }
    }
    best
}

pub const NEST_CAP: usize = 14;
/// no single run may be asked to execute more than this many steps (keeps the check itself bounded)
pub const STEP_CAP: u128 = 3_000_000;

pub fn check_cost(ops: &[ROp], st: &mut Stats) -> Check {
    st.eval();
    let n = ops.len();
    let bytes = match refvm::encode(ops) {
        Some(b) => b,
        None => return Ok(()),
    };
    let has_loop = ops.iter().any(|o| matches!(o, ROp::Loop(_, _)));
    let doubling = ops.windows(2).filter(|w| matches!(w, [ROp::Dup, ROp::BAppend] | [ROp::Dup, ROp::VAppend])).count();
    if has_loop || doubling > 0 {
        st.nontrivial(h64(&bytes));
    }
    if has_loop {
        st.class("has-loop");
    }
    if doubling > 0 {
        st.class("has-doubling-prefix");
    }
    let nest = max_nesting(ops);
    st.class(&format!("nesting-{}", nest.min(15)));
    let real_ops: Vec<_> = ops.iter().map(refvm::to_real_op).collect();
    let cov = melvm::Covenant::from_ops(&real_ops);

    // (2) work done by the weight calculation
    let wref = refvm::weight(ops);
    if nest > NEST_CAP {
        st.exclude("nesting-above-cap");
        return Ok(());
    }
    melvm::opcode::VERIF_WEIGH_CALLS.with(|c| c.set(0));
    let ((w, calls), peak_w, _) = crate::alloc::measure(|| {
        let w = catch(|| cov.weight());
        (w, melvm::opcode::VERIF_WEIGH_CALLS.with(|c| c.get()))
    });
    let w = match w {
        Ok(w) => w,
        Err(p) => viol!("weight-panic", "weight() panicked on [{}]: {:?}", refvm::show_ops(ops), p),
    };
    // what a spender is charged is computed from the covenant's *bytes*
    if let Some(bytes) = refvm::encode(ops) {
        let wb = match catch(|| melvm::covenant_weight_from_bytes(&bytes)) {
            Ok(x) => x,
            Err(p) => viol!("weight-panic", "covenant_weight_from_bytes panicked on [{}]: {:?}", refvm::show_ops(ops), p),
        };
        if wb != wref {
            viol!("weight-value", "the weight charged for the bytes of [{}] is {} but the specification formula gives {}", refvm::show_ops(ops), wb, wref);
        }
    }
    if w != wref {
        viol!("weight-value", "weight of [{}] is {} but the specification formula gives {}", refvm::show_ops(ops), w, wref);
    }
    let bound = 8 * (n as u64) * (n as u64) + 64;
    if calls > bound {
        viol!(
            "weigh-work-superpolynomial",
            "weighing a {}-instruction covenant (loop nesting {}) took {} weigh steps > 8n^2+64 = {}",
            n,
            nest,
            calls,
            bound
        );
    }

    // (1) steps <= weight, and (3) memory
    if w > STEP_CAP {
        st.exclude("weight-above-step-cap");
        return Ok(());
    }
    // (4) time: the covenant is weighed and executed once in a worker process whose CPU time is read from /proc; a run
    // that uses more than the budget is cut off (the worker is killed) and reported. Done first, so that the in-process
    // run below cannot hang the check.
    let timed = timed_run(&bytes, w);
    if let (Timed::Done(t), true) = (&timed, std::env::var("MV_C11_SLOW").is_ok()) {
        if *t >= 100 {
            eprintln!("[slow {} ticks, weight {}] {}", t, w, refvm::show_ops(ops).chars().take(300).collect::<String>());
        }
    }
    match timed {
        Timed::Done(ticks) => st.class(match ticks {
            0..=9 => "cpu-time-under-0.1s",
            10..=99 => "cpu-time-0.1s-to-1s",
            100..=299 => "cpu-time-1s-to-3s",
            300..=999 => "cpu-time-3s-to-10s",
            _ => "cpu-time-above-10s",
        }),
        Timed::Exceeded(ticks, budget) => {
            viol!(
                "cpu-time-exceeds-bound",
                "[{}] ({} bytes, weight {}) was still being weighed / executed after {:.1} s of CPU time (budget {:.0} s = 5 s + 10 us per unit of weight; runs above weight {} are not made)",
                refvm::show_ops(ops).chars().take(400).collect::<String>(),
                bytes.len(),
                w,
                ticks as f64 / 100.0,
                budget as f64 / 100.0,
                STEP_CAP
            );
        }
        Timed::Unavailable => st.exclude("timing-worker-unavailable"),
    }
    let heap: HashMap<u16, melvm::Value> = HashMap::new();
    let (res, peak_x, _) = crate::alloc::measure(|| {
        catch(|| {
            let mut ex = melvm::VerifExecutor::new(real_ops.clone(), heap);
            let mut steps: u128 = 0;
            while ex.pc() < n {
                if ex.step().is_none() {
                    break;
                }
                steps += 1;
                if steps > w {
                    return Err(steps);
                }
            }
            Ok(steps)
        })
    });
    let steps = match res {
        Ok(Ok(s)) => s,
        Ok(Err(s)) => viol!(
            "steps-exceed-weight",
            "[{}] executed {} instructions, more than its weight {}",
            refvm::show_ops(ops),
            s,
            w
        ),
        Err(p) => viol!("exec-panic", "[{}] panicked: {:?}", refvm::show_ops(ops), p),
    };
    if steps * 2 > w && has_loop {
        st.class("steps-above-half-weight");
    }
    let peak = peak_w.max(peak_x);
    let allowed = (4u64 << 20) + 16384 * (bytes.len() as u64 + w.min(u64::MAX as u128) as u64);
    if peak > allowed {
        viol!(
            "memory-exceeds-bound",
            "[{}] ({} bytes, weight {}) needed {} bytes of memory, more than 4 MiB + 16 KiB*(size+weight) = {}",
            refvm::show_ops(ops),
            bytes.len(),
            w,
            peak,
            allowed
        );
    }
    Ok(())
}

pub enum Timed {
    /// finished; CPU time used, in clock ticks (1/100 s)
    Done(u64),
    /// cut off after this many ticks; the budget that applied
    Exceeded(u64, u64),
    /// the worker could not be started or died (counted, never a verdict)
    Unavailable,
}

/// CPU-time budget for weighing and executing one covenant, in ticks of 1/100 s: 5 s + 10 microseconds per unit of
/// weight (35 s at the largest weight that is run). Measured on the unchanged tree the slowest generated covenants need
/// about 0.5 microseconds per unit of weight (1.1 s at weight 2x10^6; see the cpu-time-* classes in the evidence).
pub const CPU_BUDGET_TICKS: u64 = 500;
/// after a first overrun in a shard (i.e. while proptest shrinks it) the budget is lowered so that shrinking stays affordable
pub const CPU_BUDGET_TICKS_SHRINK: u64 = 200;

struct Worker {
    child: std::process::Child,
    stdin: std::process::ChildStdin,
    rx: std::sync::mpsc::Receiver<String>,
}

impl Drop for Worker {
    fn drop(&mut self) {
        let _ = self.child.kill();
        let _ = self.child.wait();
    }
}

thread_local! {
    static WORKER: std::cell::RefCell<Option<Worker>> = const { std::cell::RefCell::new(None) };
    static OVERRUN_SEEN: std::cell::Cell<bool> = const { std::cell::Cell::new(false) };
}

fn spawn_worker() -> Option<Worker> {
    use std::io::BufRead;
    let exe = std::env::current_exe().ok()?;
    let mut child = std::process::Command::new(exe)
        .arg("vm-worker").arg("C11")
        .stdin(std::process::Stdio::piped())
        .stdout(std::process::Stdio::piped())
        .stderr(std::process::Stdio::null())
        .spawn()
        .ok()?;
    let stdin = child.stdin.take()?;
    let stdout = child.stdout.take()?;
    let (tx, rx) = std::sync::mpsc::channel();
    std::thread::spawn(move || {
        for line in std::io::BufReader::new(stdout).lines() {
            match line {
                Ok(l) => {
                    if tx.send(l).is_err() {
                        break;
                    }
                }
                Err(_) => break,
            }
        }
    });
    Some(Worker { child, stdin, rx })
}

/// utime + stime of a process, in clock ticks, from /proc/<pid>/stat
fn cpu_ticks(pid: u32) -> Option<u64> {
    let s = std::fs::read_to_string(format!("/proc/{}/stat", pid)).ok()?;
    let rest = &s[s.rfind(')')? + 1..];
    let f: Vec<&str> = rest.split_whitespace().collect();
    // after the command name: state is field 3 of the file, so utime (14) and stime (15) are at indices 11 and 12 here
    Some(f.get(11)?.parse::<u64>().ok()? + f.get(12)?.parse::<u64>().ok()?)
}

/// Weighs and executes the covenant once in this shard's worker process and reports the CPU time it took.
pub fn timed_run(bytes: &[u8], weight: u128) -> Timed {
    use std::io::Write;
    WORKER.with(|slot| {
        let mut slot = slot.borrow_mut();
        if slot.is_none() {
            *slot = spawn_worker();
        }
        let full = CPU_BUDGET_TICKS + (weight.min(STEP_CAP) / 1000) as u64;
        let budget = if OVERRUN_SEEN.with(|c| c.get()) { full.min(CPU_BUDGET_TICKS_SHRINK) } else { full };
        let outcome = {
            let w = match slot.as_mut() {
                Some(w) => w,
                None => return Timed::Unavailable,
            };
            let pid = w.child.id();
            let before = match cpu_ticks(pid) {
                Some(t) => t,
                None => return Timed::Unavailable,
            };
            if writeln!(w.stdin, "{}", hex::encode(bytes)).and_then(|_| w.stdin.flush()).is_err() {
                None
            } else {
                let mut wait_ms = 1u64;
                loop {
                    match w.rx.recv_timeout(std::time::Duration::from_millis(wait_ms)) {
                        Ok(_) => break Some(Timed::Done(cpu_ticks(pid).unwrap_or(before).saturating_sub(before))),
                        Err(std::sync::mpsc::RecvTimeoutError::Timeout) => {
                            wait_ms = (wait_ms * 2).min(250);
                            match cpu_ticks(pid) {
                                Some(now) if now.saturating_sub(before) > budget => break Some(Timed::Exceeded(now.saturating_sub(before), budget)),
                                Some(_) => {}
                                None => break None,
                            }
                        }
                        Err(std::sync::mpsc::RecvTimeoutError::Disconnected) => break None,
                    }
                }
            }
        };
        match outcome {
            Some(Timed::Done(t)) => Timed::Done(t),
            Some(other) => {
                // cut off: the worker is killed and replaced
                OVERRUN_SEEN.with(|c| c.set(true));
                *slot = None;
                other
            }
            None => {
                *slot = None;
                Timed::Unavailable
            }
        }
    })
}

/// child side of `timed_run`: one covenant (hex) per line on stdin; weighs it as a validator does, executes it on an
/// empty heap, answers with one line
pub fn vm_worker() {
    use std::io::{BufRead, Write};
    std::panic::set_hook(Box::new(|_| {}));
    let stdin = std::io::stdin();
    let mut out = std::io::stdout();
    for line in stdin.lock().lines() {
        let line = match line {
            Ok(l) => l,
            Err(_) => break,
        };
        let b = hex::decode(line.trim()).unwrap_or_default();
        let r = std::panic::catch_unwind(|| {
            let _ = melvm::covenant_weight_from_bytes(&b);
            if let Ok(c) = melvm::Covenant::from_bytes(&b) {
                let _ = c.weight();
                let v = c.debug_execute(&[]);
                drop(v);
            }
        });
        if writeln!(out, "{}", if r.is_ok() { "ok" } else { "panic" }).and_then(|_| out.flush()).is_err() {
            break;
        }
    }
}

pub fn arb_cost(thorough: bool) -> impl Strategy<Value = Cost> {
    let kmax: u8 = if thorough { 26 } else { 22 };
    let iters = prop_oneof![Just(0u16), Just(1), Just(2), Just(3), Just(65535), 0u16..300];
    prop_oneof![
        3 => (proptest::collection::vec((iters, prop_oneof![0u16..8, Just(65535u16), 0u16..40]), 1..=NEST_CAP),
              crate::vmgen::choices(4), crate::vmgen::choices(6))
            .prop_map(|(levels, body, tail)| Cost::Nest { levels, body, tail }),
        3 => (any::<bool>(), 1..=kmax, any::<u8>(), any::<u64>())
            .prop_map(|(vector, k, consumer, arg)| Cost::Doubling { vector, k, consumer, arg }),
        3 => crate::vmgen::choices(60).prop_map(Cost::Typed),
        1 => any::<u64>().prop_map(Cost::NearMiss),
        1 => proptest::collection::vec((any::<u8>(), any::<u16>()), 1..40).prop_map(Cost::Jumps),
        1 => (any::<bool>(), prop_oneof![Just(1u16), Just(30), 55u16..70, Just(200), Just(5000), Just(65535)], any::<u8>())
            .prop_map(|(vector, iters, consumer)| Cost::LoopDoubling { vector, iters, consumer }),
    ]
}

pub fn run(ctx: &Ctx) -> (Outcome, String, Option<bool>) {
    let thorough = ctx.thorough();
    let out = run_sharded(
        ctx,
        "cost",
        ctx.scale(8_000, 80_000),
        || arb_cost(thorough),
        |c, st, _| {
            let ops = build(c);
            let r = check_cost(&ops, st);
            if st.want_sample() {
                st.sample(|| json!({"shape": format!("{:?}", c).chars().take(200).collect::<String>(), "ops": refvm::show_ops(&ops).chars().take(300).collect::<String>()}));
            }
            r
        },
    );
    let rule = format!("Generated: nested loops up to syntactic depth {} with iteration counts 0/1/2/3/65535/random and body lengths that overrun the program or the enclosing loop; doubling prefixes (dup;bappend / dup;vappend, k up to {}) followed by every consuming opcode; type-aware random programs; jump-heavy code; doubling inside counted loops of 1 to 65535 iterations (lengths pass 2^64 after ~60). Doubling prefixes of 40-58 steps (2^40..2^58 logical elements in shared nodes) feed consumers that never materialise the value: an equal huge value written over a vector slot that holds it, nested vectors of equal huge values. Oracle: (4) every covenant is first weighed and executed once in a worker process whose CPU time (utime+stime from /proc) must stay below 5 s + 10 microseconds per unit of weight (measured on the unchanged tree: at most ~0.5 microseconds per unit of weight, 1.1 s at weight 2x10^6; see the cpu-time-* classes); a run over the budget is cut off by killing the worker (2 s while a failure is being shrunk, and shrinking stops after two minutes); deterministic counters: (1) the real interpreter, stepped one instruction at a time through the cfg(melstf_verif) re-export, never executes more instructions than Covenant::weight() (runs with weight > {} are excluded and counted); (2) weight() equals the specification formula and needs <= 8n^2+64 weigh steps (thread-local counter hook); (3) peak heap bytes of weight()+execution <= 4 MiB + 16 KiB*(covenant bytes + weight) (one pushed value costs up to ~4.2 KiB in the persistent-vector representation, measured), measured by a counting allocator. Non-trivial = program contains a loop or a doubling prefix; distinct by bytecode.", NEST_CAP, if thorough {26} else {22}, STEP_CAP);
    (out, rule, None)
}

#[allow(dead_code)]
pub fn replay(case: &serde_json::Value) -> Check {
    let mut st = Stats::default();
    if let Ok(c) = serde_json::from_value::<Cost>(case.clone()) {
        return check_cost(&build(&c), &mut st);
    }
    Err(Violation::new("replay-format", "cannot interpret replay case"))
}
