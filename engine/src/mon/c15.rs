//! C15 — Melswap settles only genuine requests, at one fair price, pro rata.
use std::collections::BTreeSet;

use melstructs::{CoinID, Denom, PoolKey, TxHash, TxKind};
use num::BigUint;

use crate::evidence::{Check, Stats};
use crate::plan::{Monitor, Profile, SealObs};
use crate::refstf;
use crate::runner::{Ctx, Outcome};
use crate::util::h64;
use crate::viol;
use crate::world::{Snap, World};

#[derive(Default)]
pub struct C15;

fn is_request_kind(k: TxKind) -> bool {
    matches!(k, TxKind::Swap | TxKind::LiqDeposit | TxKind::LiqWithdraw)
}

fn pools_equal(a: &Snap, b: &Snap) -> Result<(), String> {
    for (k, p) in a.pools.iter() {
        match b.pools.get(k) {
            None => return Err(format!("pool {} exists only on one side", k)),
            Some(q) => {
                if (p.lefts, p.rights, p.liqs) != (q.lefts, q.rights, q.liqs) {
                    return Err(format!(
                        "pool {}: implementation (lefts {}, rights {}, liqs {}) vs specification (lefts {}, rights {}, liqs {})",
                        k, p.lefts, p.rights, p.liqs, q.lefts, q.rights, q.liqs
                    ));
                }
            }
        }
    }
    for k in b.pools.keys() {
        if !a.pools.contains_key(k) {
            return Err(format!("pool {} missing in the implementation", k));
        }
    }
    Ok(())
}

fn coins_diff(real: &Snap, model: &Snap) -> Option<String> {
    for (k, v) in model.coins.iter() {
        match real.coins.get(k) {
            None => return Some(format!("coin {} missing (specification: {} {})", k, v.coin_data.value.0, v.coin_data.denom)),
            Some(x) if x != v => {
                return Some(format!(
                    "coin {}: implementation {} {} (height {}), specification {} {} (height {})",
                    k, x.coin_data.value.0, x.coin_data.denom, x.height.0, v.coin_data.value.0, v.coin_data.denom, v.height.0
                ))
            }
            _ => {}
        }
    }
    for k in real.coins.keys() {
        if !model.coins.contains_key(k) {
            return Some(format!("coin {} should not exist", k));
        }
    }
    None
}

impl Monitor for C15 {
    fn on_seal(&mut self, w: &World, ob: &SealObs, st: &mut Stats) -> Check {
        let pre = ob.pre;
        let post = ob.post;
        // classify the block
        let mut request_hashes: BTreeSet<TxHash> = BTreeSet::new();
        let mut odd = 0;
        let mut canonical = 0;
        let mut bystanders_with_key = 0;
        for t in pre.txs.iter() {
            let named = PoolKey::from_bytes(&t.data);
            if is_request_kind(t.kind) && named.is_some() {
                request_hashes.insert(t.hash_nosigs());
                if refstf::canonical_key(&t.data).is_some() {
                    canonical += 1;
                } else {
                    odd += 1;
                }
            } else if named.is_some() && !t.data.is_empty() {
                bystanders_with_key += 1;
            }
        }
        st.class_n("requests-canonical-spelling", canonical);
        st.class_n("requests-alternative-spelling", odd);
        st.class_n("non-requests-carrying-a-pool-key", bystanders_with_key);
        if super::c01::legacy_deposit_regime(w.net, pre.height) && !ob.trace.deposits.is_empty() {
            st.exclude("legacy-deposit-regime-block");
            return Ok(());
        }
        // (i) outputs of transactions that are not requests stay exactly as declared
        for (id, cdh) in pre.coins.iter() {
            if request_hashes.contains(&id.txhash) {
                continue;
            }
            match post.coins.get(id) {
                Some(x) if x == cdh => {}
                other => viol!(
                    "non-request-output-transformed",
                    "coin {} of a transaction that is not a pool request was {} {} before sealing and is {:?} after",
                    id,
                    cdh.coin_data.value.0,
                    cdh.coin_data.denom,
                    other.map(|x| (x.coin_data.value.0, format!("{}", x.coin_data.denom)))
                ),
            }
        }
        // requests whose kind/shape does not match are not settled either: covered by the exact comparison below

        // (iii) each pool side only moves by coins of its own denomination: per-denomination conservation across
        // coins + reserves is C01's invariant; here: reserves of a pool move only if the block has a request naming it
        for (k, p) in post.pools.iter() {
            let was = pre.pools.get(k);
            let builtin = [PoolKey::new(Denom::Mel, Denom::Sym), PoolKey::new(Denom::Erg, Denom::Sym)].contains(k);
            let named = pre.txs.iter().any(|t| {
                is_request_kind(t.kind) && PoolKey::from_bytes(&t.data).map_or(false, |x| crate::world::slot_owner(x) == *k)
            });
            if !named && !builtin {
                if let Some(q) = was {
                    if (q.lefts, q.rights, q.liqs) != (p.lefts, p.rights, p.liqs) {
                        viol!("pool-moved-without-request", "pool {} changed from {:?} to {:?} in a block with no request naming it", k, q, p);
                    }
                }
            }
        }
        // (ii) exact settlement per the specification formulas; for alternative spellings either outcome is fine
        let exact = pools_equal(post, ob.ref_post).and_then(|_| match coins_diff(post, ob.ref_post) {
            None => Ok(()),
            Some(d) => Err(d),
        });
        if let Err(d) = exact {
            let mut ok = false;
            if odd > 0 {
                let (alt, _) = refstf::seal_with(pre, ob.action, true);
                if pools_equal(post, &alt).is_ok() && coins_diff(post, &alt).is_none() {
                    ok = true;
                    st.class("alternative-spelling-settled-as-canonical");
                }
            }
            if !ok {
                let what = if !ob.trace.deposits.is_empty() {
                    "deposit"
                } else if !ob.trace.withdrawals.is_empty() {
                    "withdrawal"
                } else if !ob.trace.swaps.is_empty() {
                    "swap"
                } else if odd > 0 {
                    "alternative-spelling"
                } else {
                    "no-settlement"
                };
                viol!(format!("settlement-differs-{}", what), "block {}: {}", pre.height, d);
            }
        }
        // independent inequalities on the real numbers
        for (k, hashes) in ob.trace.swaps.iter() {
            let touched_otherwise = ob.trace.deposits.iter().any(|(x, _)| x == k) || ob.trace.withdrawals.iter().any(|(x, _)| x == k);
            let builtin_moved = [PoolKey::new(Denom::Mel, Denom::Sym), PoolKey::new(Denom::Erg, Denom::Sym)].contains(k);
            if let (Some(a), Some(b)) = (pre.pools.get(k), post.pools.get(k)) {
                if !touched_otherwise && !builtin_moved {
                    let before = BigUint::from(a.lefts) * BigUint::from(a.rights);
                    let after = BigUint::from(b.lefts) * BigUint::from(b.rights);
                    if after < before {
                        viol!("reserve-product-decreased", "pool {}: reserve product fell from {} to {} in a swap-only block", k, before, after);
                    }
                }
            }
            if hashes.len() >= 2 {
                st.class("pool-with-several-swaps");
            }
        }
        for (k, hashes) in ob.trace.deposits.iter() {
            // liquidity handed out never exceeds liquidity minted
            if ob.trace.withdrawals.iter().any(|(x, _)| x == k) {
                // liquidity was also burnt on this pool in the same block: the growth of `liqs` is not the minted amount
                continue;
            }
            let minted = post.pools.get(k).map(|p| p.liqs).unwrap_or(0).saturating_sub(pre.pools.get(k).map(|p| p.liqs).unwrap_or(0));
            let handed: BigUint = hashes
                .iter()
                .filter_map(|h| post.coins.get(&CoinID::new(*h, 0)))
                .filter(|c| c.coin_data.denom == k.liq_token_denom())
                .map(|c| BigUint::from(c.coin_data.value.0))
                .sum();
            if handed > BigUint::from(minted) {
                viol!(
                    "liquidity-overissued",
                    "pool {}: {} deposit(s) in block {} received {} liquidity tokens but only {} were minted",
                    k,
                    hashes.len(),
                    pre.height,
                    handed,
                    minted
                );
            }
            if hashes.len() >= 2 {
                st.class("pool-with-several-deposits");
            }
        }
        for (_, hashes) in ob.trace.withdrawals.iter() {
            if hashes.len() >= 2 {
                st.class("pool-with-several-withdrawals");
            }
        }
        if ob.trace.deposits.iter().any(|d| ob.trace.withdrawals.iter().any(|w| w.0 == d.0)) {
            st.class("pool-with-deposit-and-withdrawal-in-one-block");
        }
        let per_pool_max = ob.trace.swaps.iter().chain(ob.trace.deposits.iter()).chain(ob.trace.withdrawals.iter()).map(|x| x.1.len()).max().unwrap_or(0);
        if per_pool_max >= 2 || (canonical + odd >= 1 && bystanders_with_key >= 1) {
            let mut d = post.pools_root.to_vec();
            d.extend_from_slice(&post.coins_root);
            st.nontrivial(h64(&d));
        }
        for s in ob.trace.skipped.iter() {
            st.class(&format!("skipped: {}", s));
        }
        Ok(())
    }
}

pub fn profile() -> Profile {
    let mut p = Profile::general();
    p.past_legacy_half = true;
    p.kind_w = [18, 8, 26, 18, 14, 2, 8, 0, 0];
    p.p_mut = 25;
    p.p_odd_spelling = 70;
    p.max_txs = 8;
    p.hostile = true;
    p.p_teleport = 1;
    p.seed_funds = true;
    p
}

pub fn run(ctx: &Ctx) -> (Outcome, String, Option<bool>) {
    let mut p = profile();
    if ctx.thorough() {
        p.max_steps = 30;
        p.max_txs = 14;
    }
    let mut out = super::hist::run_histories(ctx, "pool-histories", p, ctx.scale(1800, 18000), C15::default);
    // liquidity lifecycles by construction (C16's plan shape, this check's oracle): blocks dense in deposits and
    // withdrawals, two thirds of them kept to two pools so that several requests share a pool
    let p2 = profile2();
    let prof2 = p2.clone();
    out.absorb(crate::runner::run_sharded(
        ctx,
        "liquidity-lifecycles",
        ctx.scale(500, 6000),
        move || {
            use proptest::strategy::Strategy;
            super::c16::arb_liquidity_plan(&prof2).prop_map(|p| super::hist::Phase2 { phase2: p })
        },
        |plan, st, shard| {
            st.eval();
            st.class("lifecycle-history");
            crate::plan::run_plan(&plan.phase2, &p2, &mut C15::default(), st, shard)
        },
    ));
    out.absorb(super::hist::run_sampled_heights(ctx, &profile(), ctx.scale(300, 3000), C15::default));
    let rule = "Also: the first phase's kind of histories on mainnet/testnet (85%) started at a height sampled anywhere below 2 000 000 (TIP-906 barrier crossed honestly first). Second phase: liquidity lifecycles by construction (a block of deposits, then 3-8 blocks mixing withdrawals, deposits, swaps and coin-splitting transactions, mostly on two pools; 20 fee coins so that many withdrawals can be built), same oracle. First phase: generated histories dominated by pool requests (swap 26%, deposit 18%, withdraw 14% of transactions; up to 8/14 per batch) on built-in, brand-new and emptied pools, amounts from 0 and 1 to the whole holding, pool keys in canonical and 6 alternative spellings (27% of requests), Normal/Faucet/Stake transactions carrying data that parses as a pool key, ~10% mutations (including swapped kinds). Oracle per sealed block, from the real coins and pools before and after sealing: (i) every coin of a non-request transaction is unchanged; (ii) pools (lefts, rights, liqs) and all coins equal RefSTF's exact settlement (single batch price, 995/1000 fee, floor pro-rata, sqrt liquidity, MAX_COINVAL cap) - for alternative spellings either 'ignored' or 'settled as the canonical pool' is accepted; (iii) a pool moves only in a block with a request naming it; reserve product never decreases in swap-only blocks; liquidity tokens handed out <= liquidity minted. Non-trivial = a block with >=2 requests settled on one pool, or a request next to a non-request carrying a pool key; distinct by (pool root, coin root).".to_string();
    (out, rule, None)
}

pub fn replay(case: &serde_json::Value) -> Check {
    super::hist::replay_any(case, &profile(), &profile2(), C15::default())
}

pub fn profile2() -> Profile {
    let mut p = profile();
    p.nuggets = 20;
    p.kind_w = [16, 8, 18, 24, 22, 2, 10, 0, 0];
    p
}
