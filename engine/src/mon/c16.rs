//! C16 — built-in pools exist with reserves; liquidity tokens stay fully backed.
use std::collections::BTreeMap;

use melstructs::{Denom, PoolKey};
use num::{BigUint, Zero};

use crate::evidence::{Check, Stats};
use crate::plan::{Monitor, Profile, SealObs};
use crate::refstf::tips_at;
use crate::runner::{Ctx, Outcome};
use crate::util::h64;
use crate::viol;
use crate::world::World;

#[derive(Default)]
pub struct C16 {
    deposits: BTreeMap<PoolKey, u32>,
    withdrawals: BTreeMap<PoolKey, u32>,
    digest: Vec<u8>,
}

impl Monitor for C16 {
    fn on_seal(&mut self, w: &World, ob: &SealObs, st: &mut Stats) -> Check {
        let post = ob.post;
        let tips = tips_at(post.net, post.height);
        let mut need = vec![PoolKey::new(Denom::Mel, Denom::Sym), PoolKey::new(Denom::Mel, Denom::Erg)];
        if tips.t902 {
            need.push(PoolKey::new(Denom::Erg, Denom::Sym));
        }
        for k in need {
            match post.pools.get(&k) {
                Some(p) if p.lefts > 0 && p.rights > 0 => {}
                other => viol!("builtin-pool-missing-or-empty", "after sealing block {} the built-in pool {} is {:?}", post.height, k, other),
            }
        }
        if post.unknown_pool_entries > 0 {
            viol!("unaccounted-pool-entry", "the pool tree holds {} entr(ies) under keys no transaction named", post.unknown_pool_entries);
        }
        if super::c01::legacy_deposit_regime(w.net, ob.pre.height) && !ob.trace.deposits.is_empty() {
            st.exclude("legacy-deposit-regime-block");
            return Ok(());
        }
        // liquidity tokens in unspent coins vs recorded liquidity
        let mut held: BTreeMap<Denom, BigUint> = BTreeMap::new();
        for c in post.coins.values() {
            if let Denom::Custom(_) = c.coin_data.denom {
                *held.entry(c.coin_data.denom).or_insert_with(BigUint::zero) += BigUint::from(c.coin_data.value.0);
            }
        }
        for (k, p) in post.pools.iter() {
            if k.left() == k.right() {
                continue;
            }
            let d = k.liq_token_denom();
            if let Some(h) = held.get(&d) {
                if *h > BigUint::from(p.liqs) {
                    let n_dep = ob.trace.deposits.iter().find(|x| x.0 == *k).map(|x| x.1.len()).unwrap_or(0);
                    let sig = if p.liqs == u128::MAX {
                        "liquidity-counter-saturated-at-u128-max"
                    } else if n_dep >= 2 {
                        "liquidity-tokens-exceed-liqs-after-multi-deposit"
                    } else {
                        "liquidity-tokens-exceed-liqs"
                    };
                    viol!(
                        sig,
                        "pool {} after block {}: unspent liquidity tokens {} exceed the recorded liquidity {} ({} deposit(s) settled in this block)",
                        k,
                        post.height,
                        h,
                        p.liqs,
                        n_dep
                    );
                }
                st.class("pool-with-liquidity-tokens-outstanding");
            }
        }
        st.class_n("deposit-batches-settled", ob.trace.deposits.len() as u64);
        st.class_n("withdrawal-batches-settled", ob.trace.withdrawals.len() as u64);
        for (k, _) in ob.trace.deposits.iter() {
            *self.deposits.entry(*k).or_insert(0) += 1;
        }
        for (k, _) in ob.trace.withdrawals.iter() {
            *self.withdrawals.entry(*k).or_insert(0) += 1;
        }
        self.digest.extend_from_slice(&post.pools_root);
        Ok(())
    }
    fn on_end(&mut self, _w: &World, st: &mut Stats) -> Check {
        if self.deposits.keys().any(|k| self.withdrawals.contains_key(k)) {
            st.nontrivial(h64(&self.digest));
            st.class("history-with-deposit-and-withdrawal-on-one-pool");
        }
        Ok(())
    }
}

pub fn profile() -> Profile {
    let mut p = Profile::general();
    p.past_legacy_half = true;
    p.kind_w = [16, 8, 18, 24, 22, 2, 10, 0, 0];
    p.p_mut = 15;
    p.p_odd_spelling = 30;
    p.max_txs = 8;
    p.max_steps = 24;
    p.seed_funds = true;
    p
}

/// Liquidity lifecycles by construction: a block of deposits, then rounds in which withdrawals (whole coins, and -
/// after ordinary transactions have split liquidity-token coins - parts), further deposits and swaps share blocks.
pub fn arb_liquidity_plan(p: &Profile) -> impl proptest::strategy::Strategy<Value = crate::plan::Plan> {
    use crate::plan::{arb_cfg, arb_tx, kind_byte, Step};
    use proptest::prelude::*;
    let p2 = p.clone();
    (
        arb_cfg(),
        proptest::collection::vec(arb_tx(3, 3), 2..5),
        proptest::collection::vec((proptest::collection::vec((arb_tx(3, 4), 0u8..10), 1..6), any::<u32>(), proptest::option::of((any::<i8>(), any::<u8>()))), 3..9),
    )
        .prop_map(move |(cfg, deposits, rounds)| {
            let mut steps = vec![];
            let mut first = vec![];
            // two thirds of the plans keep to two pools (the first and the last candidate), so that one block holds
            // several requests per pool and requests on different pools interleave
            let focus = cfg.val % 3 != 0;
            for mut t in deposits {
                t.kind = kind_byte(&p2, 3, t.kind);
                if focus {
                    t.pool = if t.pool % 2 == 0 { 0 } else { 65535 };
                }
                first.push(t);
            }
            steps.push(Step::Batch(first, 0));
            steps.push(Step::Seal(None));
            for (txs, order, action) in rounds {
                let mut b = vec![];
                for (mut t, what) in txs {
                    let k = match what {
                        0..=3 => 4, // withdrawal
                        4 | 5 => 3, // deposit
                        6 | 7 => 2, // swap
                        8 if p2.hostile => 1, // a faucet (which, in a hostile profile, also forges liquidity tokens)
                        _ => 0,     // ordinary (splits and merges liquidity-token coins among others)
                    };
                    if k == 1 {
                        for o in t.outs.iter_mut() {
                            o.denom = (o.denom / 5).min(50) * 5 + 4;
                            if o.weight % 2 == 0 {
                                o.weight = (o.weight / 7).min(35) * 7 + 6; // ... of a pool that does not exist yet
                            }
                        }
                    }
                    t.kind = kind_byte(&p2, k, t.kind);
                    if focus && k == 3 {
                        t.pool = if t.pool % 2 == 0 { 0 } else { 65535 };
                    }
                    b.push(t);
                }
                steps.push(Step::Batch(b, order));
                steps.push(Step::Seal(action));
            }
            crate::plan::Plan { cfg, steps }
        })
}

/// Hand-built scenarios at the edge of the u128 liquidity counter: two freshly created tokens A and B, a first
/// deposit, then deposits whose sizes are chosen per case from the whole range 2^0..2^120 on either side (alone
/// or two in one block), and finally withdrawals of whole liquidity coins. Everything goes through the public
/// transaction path; the oracle is the same backing invariant over the real state.
#[derive(Clone, Debug, serde::Serialize, serde::Deserialize)]
pub struct ExtremeCase {
    /// (exponent of the left amount, exponent of the right amount, jitter left, jitter right, same block as the previous one)
    pub deposits: Vec<(u8, u8, u16, u16, bool)>,
    pub withdraw_mask: u8,
}

pub fn arb_extreme() -> impl proptest::strategy::Strategy<Value = ExtremeCase> {
    use proptest::prelude::*;
    let expo = prop_oneof![0u8..121, Just(0u8), Just(1), Just(60), Just(100), Just(119), Just(120), 90u8..121];
    (proptest::collection::vec((expo.clone(), expo, any::<u16>(), any::<u16>(), any::<bool>()), 2..7), any::<u8>())
        .prop_map(|(deposits, withdraw_mask)| ExtremeCase { deposits, withdraw_mask })
}

fn amount(e: u8, jit: u16) -> u128 {
    let e = (e as u32).min(120);
    let base = 1u128 << e;
    let v = match jit % 4 {
        0 => base,
        1 => base.saturating_sub(1).max(1),
        2 => base + ((jit as u128) << e.saturating_sub(16)),
        _ => base / 3 * 2 + 1,
    };
    v.min(1u128 << 120).max(1)
}

pub fn check_extreme(c: &ExtremeCase, st: &mut Stats, shard: usize) -> Check {
    use crate::world::{CovSpec, GenesisSpec, Outcome as O};
    use melstructs::{CoinData, CoinID, CoinValue, NetID, Transaction, TxKind};
    st.eval();
    let t = CovSpec::True;
    let out = |d: Denom, v: u128| CoinData { covhash: t.hash(), value: CoinValue(v), denom: d, additional_data: Default::default() };
    let g = GenesisSpec { net: NetID::Custom02, init: out(Denom::Mel, 1 << 80), init_cov: t.clone(), fee_pool: 0, fee_mult: 100, stakes: vec![] };
    let mut w = World::new(g, shard);
    let n = c.deposits.len();
    let fee = 1u128 << 40;
    let amts: Vec<(u128, u128)> = c.deposits.iter().map(|d| (amount(d.0, d.2), amount(d.1, d.3))).collect();
    // token A with one coin per planned deposit, plus fee coins; token B likewise
    let mut ta = Transaction::new(TxKind::Normal);
    ta.inputs = vec![CoinID::zero_zero()];
    ta.covenants = vec![t.bytes().into()];
    for a in amts.iter() {
        ta.outputs.push(out(Denom::NewCustom, a.0));
    }
    let n_fee = 2 * n + 2;
    for _ in 0..n_fee {
        ta.outputs.push(out(Denom::Mel, fee));
    }
    ta.fee = CoinValue((1u128 << 80) - fee * n_fee as u128);
    let ha = ta.hash_nosigs();
    let mut tb = Transaction::new(TxKind::Normal);
    tb.inputs = vec![CoinID::new(ha, (n + n_fee - 1) as u8)];
    tb.covenants = vec![t.bytes().into()];
    for a in amts.iter() {
        tb.outputs.push(out(Denom::NewCustom, a.1));
    }
    tb.fee = CoinValue(fee);
    let hb = tb.hash_nosigs();
    if !matches!(w.apply_batch(&[ta.clone(), tb.clone()]), O::Ok(())) {
        st.exclude("funding-rejected");
        return Ok(());
    }
    let (da, db) = (Denom::Custom(ha), Denom::Custom(hb));
    let key = PoolKey::new(da, db);
    let a_is_left = key.left() == da;
    let mut seal_and_check = |w: &mut World, st: &mut Stats, what: &str| -> Check {
        let pre = w.snap();
        if !matches!(w.seal(None), O::Ok(_)) {
            viol!("seal-panicked", "sealing panicked in an extreme-deposit scenario ({})", what);
        }
        let post = w.snap();
        let mut held: BTreeMap<Denom, BigUint> = BTreeMap::new();
        for c in post.coins.values() {
            *held.entry(c.coin_data.denom).or_insert_with(BigUint::zero) += BigUint::from(c.coin_data.value.0);
        }
        if let Some(p) = post.pools.get(&key) {
            let h = held.get(&key.liq_token_denom()).cloned().unwrap_or_default();
            if h > BigUint::from(p.liqs) {
                viol!(
                    if p.liqs == u128::MAX { "liquidity-counter-saturated-at-u128-max" } else { "liquidity-tokens-exceed-liqs-near-counter-limit" },
                    "{}: unspent liquidity tokens {} exceed the recorded liquidity {} (reserves {} / {})",
                    what,
                    h,
                    p.liqs,
                    p.lefts,
                    p.rights
                );
            }
            // issuance view of the same thing (C01): the block hands out at most as many liquidity tokens as the
            // counter rose by
            let held_before: BigUint = pre.coins.values().filter(|c| c.coin_data.denom == key.liq_token_denom()).map(|c| BigUint::from(c.coin_data.value.0)).sum();
            let liqs_before = pre.pools.get(&key).map(|x| x.liqs).unwrap_or(0);
            if h > held_before && p.liqs >= liqs_before && &h - &held_before > BigUint::from(p.liqs - liqs_before) {
                viol!(
                    "liquidity-issued-above-counter-increase",
                    "{}: {} liquidity tokens were issued while the pool's counter rose from {} to {}",
                    what,
                    &h - &held_before,
                    liqs_before,
                    p.liqs
                );
            }
            // the two tokens exist nowhere else: coins + reserve never exceed what was created
            for (d, made, reserve) in [(da, &amts.iter().map(|x| BigUint::from(x.0)).sum::<BigUint>(), if a_is_left { p.lefts } else { p.rights }), (db, &amts.iter().map(|x| BigUint::from(x.1)).sum::<BigUint>(), if a_is_left { p.rights } else { p.lefts })] {
                let total = held.get(&d).cloned().unwrap_or_default() + BigUint::from(reserve);
                if total > *made {
                    viol!("token-supply-above-what-was-created", "{}: {} of token {} exist (coins + reserve), only {} were created", what, total, d, made);
                }
            }
            if p.liqs > u128::MAX / 2 {
                st.class("liquidity-counter-above-2^127");
            }
            let before = pre.pools.get(&key).map(|x| x.liqs).unwrap_or(0);
            if p.liqs > before {
                st.class("extreme-deposit-settled");
            } else if pre.txs.iter().any(|t| t.kind == TxKind::LiqDeposit) {
                st.class("extreme-deposit-left-unsettled");
            }
        }
        Ok(())
    };
    seal_and_check(&mut w, st, "funding block")?;
    let mut liq_coins: Vec<(CoinID, usize)> = vec![];
    let mut i = 0;
    let mut digest = vec![];
    while i < n {
        let mut group = vec![i];
        if i + 1 < n && c.deposits[i + 1].4 {
            group.push(i + 1);
        }
        for &j in group.iter() {
            let mut d = Transaction::new(TxKind::LiqDeposit);
            d.inputs = vec![CoinID::new(ha, j as u8), CoinID::new(hb, j as u8), CoinID::new(ha, (n + 2 * j) as u8)];
            d.covenants = vec![t.bytes().into()];
            let (l, r) = if a_is_left { (out(da, amts[j].0), out(db, amts[j].1)) } else { (out(db, amts[j].1), out(da, amts[j].0)) };
            d.outputs = vec![l, r];
            d.data = key.to_bytes().to_vec().into();
            d.fee = CoinValue(fee);
            match w.apply_batch(std::slice::from_ref(&d)) {
                O::Ok(()) => liq_coins.push((CoinID::new(d.hash_nosigs(), 0), j)),
                O::Rejected(e) => {
                    st.exclude("deposit-rejected");
                    let _ = e;
                }
                O::Panicked(p) => viol!("apply-panicked", "an extreme deposit panicked: {:?}", p),
            }
        }
        seal_and_check(&mut w, st, &format!("block with deposit(s) {:?} of amounts {:?}", group, group.iter().map(|j| amts[*j]).collect::<Vec<_>>()))?;
        digest.extend(group.iter().map(|j| (c.deposits[*j].0, c.deposits[*j].1)));
        i += group.len();
    }
    // withdrawals of whole liquidity coins, one block each
    for (k, (coin, j)) in liq_coins.iter().enumerate() {
        if c.withdraw_mask >> (k % 8) & 1 == 0 {
            continue;
        }
        let snap = w.snap();
        let cdh = match snap.coins.get(coin) {
            Some(x) if x.coin_data.denom == key.liq_token_denom() && x.coin_data.value.0 > 0 => x.clone(),
            _ => continue,
        };
        let mut wd = Transaction::new(TxKind::LiqWithdraw);
        wd.inputs = vec![*coin, CoinID::new(ha, (n + 2 * j + 1) as u8)];
        wd.covenants = vec![t.bytes().into()];
        wd.outputs = vec![out(key.liq_token_denom(), cdh.coin_data.value.0)];
        wd.data = key.to_bytes().to_vec().into();
        wd.fee = CoinValue(fee);
        match w.apply_batch(std::slice::from_ref(&wd)) {
            O::Ok(()) => st.class("extreme-withdrawal-submitted"),
            O::Rejected(e) => st.exclude(&format!("withdrawal-rejected: {}", e.chars().take(60).collect::<String>())),
            O::Panicked(p) => viol!("apply-panicked", "a withdrawal panicked: {:?}", p),
        }
        seal_and_check(&mut w, st, &format!("block withdrawing the liquidity coin of deposit {}", j))?;
    }
    if liq_coins.len() >= 2 {
        st.nontrivial(h64(format!("{:?}|{}", digest, c.withdraw_mask).as_bytes()));
    }
    Ok(())
}

pub fn run(ctx: &Ctx) -> (Outcome, String, Option<bool>) {
    let mut p = profile();
    if ctx.thorough() {
        p.max_steps = 40;
        p.max_txs = 12;
    }
    let out = super::hist::run_histories(ctx, "liquidity-histories", p, ctx.scale(900, 9000), C16::default);
    let mut out = out;
    let p2 = profile2();
    let prof2 = p2.clone();
    out.absorb(crate::runner::run_sharded(
        ctx,
        "liquidity-lifecycles",
        ctx.scale(500, 5000),
        move || {
            use proptest::strategy::Strategy;
            arb_liquidity_plan(&prof2).prop_map(|p| super::hist::Phase2 { phase2: p })
        },
        |plan, st, shard| {
            st.eval();
            st.class("lifecycle-history");
            crate::plan::run_plan(&plan.phase2, &p2, &mut C16::default(), st, shard)
        },
    ));
    out.absorb(crate::runner::run_sharded(ctx, "extreme-deposits", ctx.scale(1500, 20000), arb_extreme, |c, st, shard| {
        let r = check_extreme(c, st, shard);
        if st.want_sample() {
            st.sample(|| serde_json::json!({"kind": "extreme-deposit scenario", "case": c}));
        }
        r
    }));
    out.absorb(super::hist::run_sampled_heights(ctx, &profile(), ctx.scale(250, 2500), C16::default));
    let rule = "Also: the first phase's kind of histories on mainnet/testnet (85%) started at a height sampled anywhere below 2 000 000 (TIP-906 barrier crossed honestly first). Third phase, scenarios at the edge of the u128 liquidity counter: two fresh tokens, 2-6 deposits with either side anywhere in 2^0..2^120 (alone or two per block), then withdrawals of whole liquidity coins; same backing invariant, plus coins + reserve of either token never exceed what was created. Second phase, liquidity lifecycles by construction: a block of 2-4 deposits, then 3-8 blocks mixing withdrawals (40%), deposits, swaps and ordinary transactions that split and merge liquidity-token coins. First phase: generated histories of up to 24 (quick) / 40 (thorough) steps rich in deposits (24%) and withdrawals (22%, always of everything a coin holds) plus swaps, new tokens and new pools, on every genesis class. Oracle after every seal, on the real state: MEL/SYM and MEL/ERG (and ERG/SYM once TIP-902) exist with both reserves > 0; the pool tree has no entry under a key no transaction named; for every pool the sum of unspent coins in its liquidity-token denomination <= the pool's recorded liquidity. Non-trivial = history with >=1 deposit and >=1 withdrawal settled on the same pool; distinct by the sequence of pool roots.".to_string();
    (out, rule, None)
}

pub fn replay(case: &serde_json::Value) -> Check {
    if case.get("deposits").is_some() {
        let c: ExtremeCase = serde_json::from_value(case.clone()).map_err(|e| crate::evidence::Violation::new("replay-format", e.to_string()))?;
        return check_extreme(&c, &mut Stats::default(), 200);
    }
    super::hist::replay_any(case, &profile(), &profile2(), C16::default())
}

/// The lifecycle phase: more small MEL coins, so that many withdrawals (each burns one as its fee) can be built.
pub fn profile2() -> Profile {
    let mut p = profile();
    p.nuggets = 20;
    p
}
