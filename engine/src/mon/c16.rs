//! C16 — built-in pools exist with reserves; liquidity tokens stay fully backed.
use std::collections::BTreeMap;

use melstructs::{Denom, PoolKey};
use num::{BigUint, Zero};

use crate::evidence::{Check, Stats};
use crate::plan::{Monitor, Profile, SealObs};
use crate::refstf::tips_at;
use crate::runner::{Ctx, Outcome};
use crate::util::h64;
use crate::viol;
use crate::world::World;

#[derive(Default)]
pub struct C16 {
    deposits: BTreeMap<PoolKey, u32>,
    withdrawals: BTreeMap<PoolKey, u32>,
    digest: Vec<u8>,
}

impl Monitor for C16 {
    fn on_seal(&mut self, w: &World, ob: &SealObs, st: &mut Stats) -> Check {
        let post = ob.post;
        let tips = tips_at(post.net, post.height);
        let mut need = vec![PoolKey::new(Denom::Mel, Denom::Sym), PoolKey::new(Denom::Mel, Denom::Erg)];
        if tips.t902 {
            need.push(PoolKey::new(Denom::Erg, Denom::Sym));
        }
        for k in need {
            match post.pools.get(&k) {
                Some(p) if p.lefts > 0 && p.rights > 0 => {}
                other => viol!("builtin-pool-missing-or-empty", "after sealing block {} the built-in pool {} is {:?}", post.height, k, other),
            }
        }
        if post.unknown_pool_entries > 0 {
            viol!("unaccounted-pool-entry", "the pool tree holds {} entr(ies) under keys no transaction named", post.unknown_pool_entries);
        }
        if super::c01::legacy_deposit_regime(w.net, ob.pre.height) && !ob.trace.deposits.is_empty() {
            st.exclude("legacy-deposit-regime-block");
            return Ok(());
        }
        // liquidity tokens in unspent coins vs recorded liquidity
        let mut held: BTreeMap<Denom, BigUint> = BTreeMap::new();
        for c in post.coins.values() {
            if let Denom::Custom(_) = c.coin_data.denom {
                *held.entry(c.coin_data.denom).or_insert_with(BigUint::zero) += BigUint::from(c.coin_data.value.0);
            }
        }
        for (k, p) in post.pools.iter() {
            if k.left() == k.right() {
                continue;
            }
            let d = k.liq_token_denom();
            if let Some(h) = held.get(&d) {
                if *h > BigUint::from(p.liqs) {
                    let n_dep = ob.trace.deposits.iter().find(|x| x.0 == *k).map(|x| x.1.len()).unwrap_or(0);
                    let sig = if p.liqs == u128::MAX {
                        "liquidity-counter-saturated-at-u128-max"
                    } else if n_dep >= 2 {
                        "liquidity-tokens-exceed-liqs-after-multi-deposit"
                    } else {
                        "liquidity-tokens-exceed-liqs"
                    };
                    viol!(
                        sig,
                        "pool {} after block {}: unspent liquidity tokens {} exceed the recorded liquidity {} ({} deposit(s) settled in this block)",
                        k,
                        post.height,
                        h,
                        p.liqs,
                        n_dep
                    );
                }
                st.class("pool-with-liquidity-tokens-outstanding");
            }
        }
        st.class_n("deposit-batches-settled", ob.trace.deposits.len() as u64);
        st.class_n("withdrawal-batches-settled", ob.trace.withdrawals.len() as u64);
        for (k, _) in ob.trace.deposits.iter() {
            *self.deposits.entry(*k).or_insert(0) += 1;
        }
        for (k, _) in ob.trace.withdrawals.iter() {
            *self.withdrawals.entry(*k).or_insert(0) += 1;
        }
        self.digest.extend_from_slice(&post.pools_root);
        Ok(())
    }
    fn on_end(&mut self, _w: &World, st: &mut Stats) -> Check {
        if self.deposits.keys().any(|k| self.withdrawals.contains_key(k)) {
            st.nontrivial(h64(&self.digest));
            st.class("history-with-deposit-and-withdrawal-on-one-pool");
        }
        Ok(())
    }
}

pub fn profile() -> Profile {
    let mut p = Profile::general();
    p.kind_w = [16, 8, 18, 24, 22, 2, 10, 0, 0];
    p.p_mut = 15;
    p.p_odd_spelling = 30;
    p.max_txs = 8;
    p.max_steps = 24;
    p.seed_funds = true;
    p
}

pub fn run(ctx: &Ctx) -> (Outcome, String, Option<bool>) {
    let mut p = profile();
    if ctx.thorough() {
        p.max_steps = 40;
        p.max_txs = 12;
    }
    let out = super::hist::run_histories(ctx, "liquidity-histories", p, ctx.scale(900, 9000), C16::default);
    let rule = "Generated histories of up to 24 (quick) / 40 (thorough) steps rich in deposits (24%) and withdrawals (22%, always of everything a coin holds) plus swaps, new tokens and new pools, on every genesis class. Oracle after every seal, on the real state: MEL/SYM and MEL/ERG (and ERG/SYM once TIP-902) exist with both reserves > 0; the pool tree has no entry under a key no transaction named; for every pool the sum of unspent coins in its liquidity-token denomination <= the pool's recorded liquidity. Non-trivial = history with >=1 deposit and >=1 withdrawal settled on the same pool; distinct by the sequence of pool roots.".to_string();
    (out, rule, None)
}

pub fn replay(case: &serde_json::Value) -> Check {
    super::hist::replay_history(case, &profile(), C16::default())
}
