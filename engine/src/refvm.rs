//! RefVM: an independent MelVM — decoder, encoder, weight function and interpreter — written from the
//! opcode table and the documented semantics. Values are plain `Vec`s, arithmetic goes through
//! `num::BigUint` (mod 2^256), so neither `catvec` nor `ethnum` arithmetic is shared with the code under test.
use std::collections::HashMap;

use ethnum::U256;
use melstructs::{CoinDataHeight, CoinID, Header, Transaction};
use num::{BigUint, One, Zero};
use serde::{Deserialize, Serialize};

#[derive(Clone, Debug, PartialEq, Eq, Serialize, Deserialize)]
pub enum ROp {
    Noop,
    Add,
    Sub,
    Mul,
    Div,
    Rem,
    Exp(u8),
    And,
    Or,
    Xor,
    Not,
    Eql,
    Lt,
    Gt,
    Shl,
    Shr,
    Hash(u16),
    SigEOk(u16),
    Store,
    Load,
    StoreImm(u16),
    LoadImm(u16),
    VRef,
    VAppend,
    VEmpty,
    VLength,
    VSlice,
    VSet,
    VPush,
    VCons,
    BRef,
    BAppend,
    BEmpty,
    BLength,
    BSlice,
    BSet,
    BPush,
    BCons,
    Bez(u16),
    Bnz(u16),
    Jmp(u16),
    Loop(u16, u16),
    ItoB,
    BtoI,
    TypeQ,
    PushB(Vec<u8>),
    /// 32 big-endian bytes
    PushI([u8; 32]),
    /// 32 big-endian bytes, encoded compactly
    PushIC([u8; 32]),
    Dup,
}

#[derive(Clone, Debug, PartialEq, Eq, Serialize, Deserialize)]
pub enum RVal {
    Int([u8; 32]),
    Bytes(Vec<u8>),
    Vec(Vec<RVal>),
}

pub fn int_u128(v: u128) -> RVal {
    let mut b = [0u8; 32];
    b[16..].copy_from_slice(&v.to_be_bytes());
    RVal::Int(b)
}

fn big(b: &[u8; 32]) -> BigUint {
    BigUint::from_bytes_be(b)
}
fn unbig(n: &BigUint) -> [u8; 32] {
    // reduce mod 2^256
    let bytes = n.to_bytes_be();
    let mut out = [0u8; 32];
    let take = bytes.len().min(32);
    out[32 - take..].copy_from_slice(&bytes[bytes.len() - take..]);
    out
}
fn is_zero(b: &[u8; 32]) -> bool {
    b.iter().all(|x| *x == 0)
}
fn small(b: &[u8; 32]) -> Option<u16> {
    if b[..30].iter().any(|x| *x != 0) {
        None
    } else {
        Some(u16::from_be_bytes([b[30], b[31]]))
    }
}

// ---------------------------------------------------------------------------------------------
// decoder / encoder

#[derive(Debug, Clone, PartialEq, Eq)]
pub enum RDecodeErr {
    Truncated,
    BadOpcode(u8),
    NonCanonical,
}

struct Rd<'a> {
    b: &'a [u8],
    p: usize,
}
impl<'a> Rd<'a> {
    fn u8(&mut self) -> Result<u8, RDecodeErr> {
        let v = *self.b.get(self.p).ok_or(RDecodeErr::Truncated)?;
        self.p += 1;
        Ok(v)
    }
    fn u16(&mut self) -> Result<u16, RDecodeErr> {
        let a = self.u8()?;
        let b = self.u8()?;
        Ok(((a as u16) << 8) | b as u16)
    }
    fn take(&mut self, n: usize) -> Result<&'a [u8], RDecodeErr> {
        if self.p + n > self.b.len() {
            return Err(RDecodeErr::Truncated);
        }
        let s = &self.b[self.p..self.p + n];
        self.p += n;
        Ok(s)
    }
}

pub fn decode(bytes: &[u8]) -> Result<Vec<ROp>, RDecodeErr> {
    let mut r = Rd { b: bytes, p: 0 };
    let mut out = vec![];
    while r.p < bytes.len() {
        let op = match r.u8()? {
            0x09 => ROp::Noop,
            0x10 => ROp::Add,
            0x11 => ROp::Sub,
            0x12 => ROp::Mul,
            0x13 => ROp::Div,
            0x14 => ROp::Rem,
            0x15 => ROp::Exp(r.u8()?),
            0x20 => ROp::And,
            0x21 => ROp::Or,
            0x22 => ROp::Xor,
            0x23 => ROp::Not,
            0x24 => ROp::Eql,
            0x25 => ROp::Lt,
            0x26 => ROp::Gt,
            0x27 => ROp::Shl,
            0x28 => ROp::Shr,
            0x30 => ROp::Hash(r.u16()?),
            0x32 => ROp::SigEOk(r.u16()?),
            0x40 => ROp::Load,
            0x41 => ROp::Store,
            0x42 => ROp::LoadImm(r.u16()?),
            0x43 => ROp::StoreImm(r.u16()?),
            0x50 => ROp::VRef,
            0x51 => ROp::VAppend,
            0x52 => ROp::VEmpty,
            0x53 => ROp::VLength,
            0x54 => ROp::VSlice,
            0x55 => ROp::VSet,
            0x56 => ROp::VPush,
            0x57 => ROp::VCons,
            0x70 => ROp::BRef,
            0x71 => ROp::BAppend,
            0x72 => ROp::BEmpty,
            0x73 => ROp::BLength,
            0x74 => ROp::BSlice,
            0x75 => ROp::BSet,
            0x76 => ROp::BPush,
            0x77 => ROp::BCons,
            0xa0 => ROp::Jmp(r.u16()?),
            0xa1 => ROp::Bez(r.u16()?),
            0xa2 => ROp::Bnz(r.u16()?),
            0xb0 => {
                let n = r.u16()?;
                let m = r.u16()?;
                ROp::Loop(n, m)
            }
            0xc0 => ROp::ItoB,
            0xc1 => ROp::BtoI,
            0xc2 => ROp::TypeQ,
            0xf0 => {
                let n = r.u8()? as usize;
                ROp::PushB(r.take(n)?.to_vec())
            }
            0xf1 => {
                let s = r.take(32)?;
                ROp::PushI(s.try_into().unwrap())
            }
            0xf2 => {
                let n = r.u8()? as usize;
                if n > 32 {
                    return Err(RDecodeErr::NonCanonical);
                }
                let s = r.take(n)?;
                // canonical: no leading zero byte (the shortest big-endian form); zero is the empty string
                if n > 0 && s[0] == 0 {
                    return Err(RDecodeErr::NonCanonical);
                }
                let mut b = [0u8; 32];
                b[32 - n..].copy_from_slice(s);
                ROp::PushIC(b)
            }
            0xff => ROp::Dup,
            other => return Err(RDecodeErr::BadOpcode(other)),
        };
        out.push(op);
    }
    Ok(out)
}

/// None when the program is not representable (PushB longer than 255 bytes).
pub fn encode(ops: &[ROp]) -> Option<Vec<u8>> {
    let mut o = vec![];
    for op in ops {
        match op {
            ROp::Noop => o.push(0x09),
            ROp::Add => o.push(0x10),
            ROp::Sub => o.push(0x11),
            ROp::Mul => o.push(0x12),
            ROp::Div => o.push(0x13),
            ROp::Rem => o.push(0x14),
            ROp::Exp(k) => {
                o.push(0x15);
                o.push(*k)
            }
            ROp::And => o.push(0x20),
            ROp::Or => o.push(0x21),
            ROp::Xor => o.push(0x22),
            ROp::Not => o.push(0x23),
            ROp::Eql => o.push(0x24),
            ROp::Lt => o.push(0x25),
            ROp::Gt => o.push(0x26),
            ROp::Shl => o.push(0x27),
            ROp::Shr => o.push(0x28),
            ROp::Hash(n) => {
                o.push(0x30);
                o.extend_from_slice(&n.to_be_bytes())
            }
            ROp::SigEOk(n) => {
                o.push(0x32);
                o.extend_from_slice(&n.to_be_bytes())
            }
            ROp::Load => o.push(0x40),
            ROp::Store => o.push(0x41),
            ROp::LoadImm(n) => {
                o.push(0x42);
                o.extend_from_slice(&n.to_be_bytes())
            }
            ROp::StoreImm(n) => {
                o.push(0x43);
                o.extend_from_slice(&n.to_be_bytes())
            }
            ROp::VRef => o.push(0x50),
            ROp::VAppend => o.push(0x51),
            ROp::VEmpty => o.push(0x52),
            ROp::VLength => o.push(0x53),
            ROp::VSlice => o.push(0x54),
            ROp::VSet => o.push(0x55),
            ROp::VPush => o.push(0x56),
            ROp::VCons => o.push(0x57),
            ROp::BRef => o.push(0x70),
            ROp::BAppend => o.push(0x71),
            ROp::BEmpty => o.push(0x72),
            ROp::BLength => o.push(0x73),
            ROp::BSlice => o.push(0x74),
            ROp::BSet => o.push(0x75),
            ROp::BPush => o.push(0x76),
            ROp::BCons => o.push(0x77),
            ROp::Jmp(n) => {
                o.push(0xa0);
                o.extend_from_slice(&n.to_be_bytes())
            }
            ROp::Bez(n) => {
                o.push(0xa1);
                o.extend_from_slice(&n.to_be_bytes())
            }
            ROp::Bnz(n) => {
                o.push(0xa2);
                o.extend_from_slice(&n.to_be_bytes())
            }
            ROp::Loop(n, m) => {
                o.push(0xb0);
                o.extend_from_slice(&n.to_be_bytes());
                o.extend_from_slice(&m.to_be_bytes())
            }
            ROp::ItoB => o.push(0xc0),
            ROp::BtoI => o.push(0xc1),
            ROp::TypeQ => o.push(0xc2),
            ROp::PushB(b) => {
                if b.len() > 255 {
                    return None;
                }
                o.push(0xf0);
                o.push(b.len() as u8);
                o.extend_from_slice(b)
            }
            ROp::PushI(b) => {
                o.push(0xf1);
                o.extend_from_slice(b)
            }
            ROp::PushIC(b) => {
                o.push(0xf2);
                let lz = b.iter().take_while(|x| **x == 0).count();
                o.push((32 - lz) as u8);
                o.extend_from_slice(&b[lz..])
            }
            ROp::Dup => o.push(0xff),
        }
    }
    Some(o)
}

// ---------------------------------------------------------------------------------------------
// weight (polynomial-time formulation of DESIGN A.2)

fn base_weight(op: &ROp) -> u128 {
    match op {
        ROp::Noop => 1,
        ROp::Add | ROp::Sub => 4,
        ROp::Mul | ROp::Div | ROp::Rem => 6,
        ROp::Exp(k) => 6 + 10 * (*k as u128 + 1),
        ROp::And | ROp::Or | ROp::Xor | ROp::Not | ROp::Eql | ROp::Lt | ROp::Gt | ROp::Shl | ROp::Shr => 4,
        ROp::Hash(n) => 50 + *n as u128,
        ROp::SigEOk(n) => 100 + *n as u128,
        ROp::Store | ROp::Load => 10,
        ROp::StoreImm(_) | ROp::LoadImm(_) => 4,
        ROp::VRef => 10,
        ROp::VSet => 20,
        ROp::VAppend => 50,
        ROp::VSlice => 50,
        ROp::VLength | ROp::VEmpty | ROp::BEmpty => 4,
        ROp::BPush | ROp::VPush | ROp::VCons | ROp::BRef | ROp::BAppend => 10,
        ROp::BLength => 4,
        ROp::BSlice => 50,
        ROp::BSet => 20,
        ROp::BCons => 10,
        ROp::TypeQ => 4,
        ROp::ItoB | ROp::BtoI => 50,
        ROp::Bez(_) | ROp::Bnz(_) | ROp::Jmp(_) => 1,
        ROp::PushB(_) | ROp::PushI(_) | ROp::PushIC(_) => 1,
        ROp::Dup => 4,
        ROp::Loop(_, _) => unreachable!(),
    }
}

/// Weight of `ops[a..b]` considered as a stand-alone slice. Memoised on (a, b).
fn w_slice(ops: &[ROp], a: usize, b: usize, memo: &mut HashMap<(usize, usize), u128>) -> u128 {
    if a >= b {
        return 0;
    }
    if let Some(v) = memo.get(&(a, b)) {
        return *v;
    }
    // weight(a..b) = car(a within ..b) + weight(a+1..b); iterate from the back to keep recursion shallow
    let mut acc: u128 = 0;
    let mut i = b;
    while i > a {
        i -= 1;
        let car = match &ops[i] {
            ROp::Loop(n, m) => {
                let body_end = (i + 1 + *m as usize).min(b);
                let body = w_slice(ops, i + 1, body_end, memo);
                body.saturating_mul(*n as u128).saturating_add(1)
            }
            other => base_weight(other),
        };
        acc = acc.saturating_add(car);
        memo.insert((i, b), acc);
    }
    acc
}

pub fn weight(ops: &[ROp]) -> u128 {
    let mut memo = HashMap::new();
    w_slice(ops, 0, ops.len(), &mut memo)
}

pub fn weight_from_bytes(b: &[u8]) -> u128 {
    decode(b).map(|o| weight(&o)).unwrap_or(0)
}

// ---------------------------------------------------------------------------------------------
// interpreter

#[derive(Debug, Clone, PartialEq, Eq)]
pub enum RunEnd {
    /// finished; Some(top of stack) or None when the stack is empty
    Done(Option<RVal>),
    /// execution failed at some instruction
    Fail,
    /// the reference refused to continue (step or size budget) — no verdict
    Budget,
}

pub struct RefExec<'a> {
    pub ops: &'a [ROp],
    pub stack: Vec<RVal>,
    pub heap: HashMap<u16, RVal>,
    pub pc: usize,
    loops: Vec<(usize, usize, u16)>, // begin, end (inclusive), iterations left
    pub steps: u64,
    pub size_cap: usize,
    /// units (see val_size) currently on the stack; the reference refuses to hold more than `total_cap`
    pub stack_units: usize,
    pub total_cap: usize,
    pub executed_kinds: std::collections::BTreeSet<u8>,
    pub loops_iterated: u64,
    pub jumps_taken: u64,
    pub sig_ok: u64,
}

enum StepErr {
    Fail,
    Budget,
}

fn val_size(v: &RVal) -> usize {
    match v {
        RVal::Int(_) => 1,
        RVal::Bytes(b) => b.len() / 32 + 1,
        RVal::Vec(v) => 1 + v.iter().map(val_size).sum::<usize>(),
    }
}

impl<'a> RefExec<'a> {
    pub fn new(ops: &'a [ROp], heap: HashMap<u16, RVal>) -> Self {
        RefExec {
            ops,
            stack: vec![],
            heap,
            pc: 0,
            loops: vec![],
            steps: 0,
            size_cap: 1 << 16,
            stack_units: 0,
            total_cap: 1 << 19,
            executed_kinds: Default::default(),
            sig_ok: 0,
            loops_iterated: 0,
            jumps_taken: 0,
        }
    }

    fn pop(&mut self) -> Result<RVal, StepErr> {
        let v = self.stack.pop().ok_or(StepErr::Fail)?;
        self.stack_units = self.stack_units.saturating_sub(val_size(&v));
        Ok(v)
    }
    fn pop_int(&mut self) -> Result<[u8; 32], StepErr> {
        match self.pop()? {
            RVal::Int(i) => Ok(i),
            _ => Err(StepErr::Fail),
        }
    }
    fn push(&mut self, v: RVal) -> Result<(), StepErr> {
        let sz = val_size(&v);
        if sz > self.size_cap || self.stack_units + sz > self.total_cap {
            return Err(StepErr::Budget);
        }
        self.stack_units += sz;
        self.stack.push(v);
        Ok(())
    }

    fn step(&mut self) -> Result<(), StepErr> {
        let op = self.ops.get(self.pc).ok_or(StepErr::Fail)?.clone();
        self.pc += 1;
        self.steps += 1;
        self.executed_kinds.insert(kind_tag(&op));
        match op {
            ROp::Noop => {}
            ROp::Add | ROp::Sub | ROp::Mul | ROp::Div | ROp::Rem | ROp::And | ROp::Or | ROp::Xor => {
                // binary integer operators: the TOP of the stack is the first operand
                let x = self.pop()?;
                let y = self.pop()?;
                let (x, y) = match (x, y) {
                    (RVal::Int(x), RVal::Int(y)) => (x, y),
                    _ => return Err(StepErr::Fail),
                };
                let m = BigUint::one() << 256usize;
                let (bx, by) = (big(&x), big(&y));
                let r = match op {
                    ROp::Add => (bx + by) % &m,
                    ROp::Sub => (bx + &m - by) % &m,
                    ROp::Mul => (bx * by) % &m,
                    ROp::Div => {
                        if by.is_zero() {
                            return Err(StepErr::Fail);
                        }
                        bx / by
                    }
                    ROp::Rem => {
                        if by.is_zero() {
                            return Err(StepErr::Fail);
                        }
                        bx % by
                    }
                    ROp::And => bx & by,
                    ROp::Or => bx | by,
                    ROp::Xor => bx ^ by,
                    _ => unreachable!(),
                };
                self.push(RVal::Int(unbig(&r)))?;
            }
            ROp::Exp(k) => {
                let b = self.pop()?;
                let e = self.pop()?;
                let (b, e) = match (b, e) {
                    (RVal::Int(b), RVal::Int(e)) => (big(&b), big(&e)),
                    _ => return Err(StepErr::Fail),
                };
                // the exponent may have at most k+1 significant bits
                if e.bits() > k as u64 + 1 {
                    return Err(StepErr::Fail);
                }
                let m = BigUint::one() << 256usize;
                self.push(RVal::Int(unbig(&b.modpow(&e, &m))))?;
            }
            ROp::Not => {
                let x = self.pop_int()?;
                let mut o = [0u8; 32];
                for i in 0..32 {
                    o[i] = !x[i];
                }
                self.push(RVal::Int(o))?;
            }
            ROp::Eql => {
                let x = self.pop()?;
                let y = self.pop()?;
                match (x, y) {
                    (RVal::Int(x), RVal::Int(y)) => self.push(int_u128((x == y) as u128))?,
                    _ => return Err(StepErr::Fail),
                }
            }
            ROp::Lt | ROp::Gt => {
                let x = self.pop()?;
                let y = self.pop()?;
                let (x, y) = match (x, y) {
                    (RVal::Int(x), RVal::Int(y)) => (x, y),
                    _ => return Err(StepErr::Fail),
                };
                // big-endian byte arrays compare like the numbers
                let r = if matches!(op, ROp::Lt) { x < y } else { x > y };
                self.push(int_u128(r as u128))?;
            }
            ROp::Shl | ROp::Shr => {
                let x = self.pop()?;
                let o = self.pop()?;
                let (x, o) = match (x, o) {
                    (RVal::Int(x), RVal::Int(o)) => (x, o),
                    _ => return Err(StepErr::Fail),
                };
                // shift amount: low 8 bits of the offset
                let sh = o[31] as usize;
                let m = BigUint::one() << 256usize;
                let r = if matches!(op, ROp::Shl) { (big(&x) << sh) % &m } else { big(&x) >> sh };
                self.push(RVal::Int(unbig(&r)))?;
            }
            ROp::Hash(n) => match self.pop()? {
                RVal::Bytes(b) => {
                    if b.len() > n as usize {
                        return Err(StepErr::Fail);
                    }
                    self.push(RVal::Bytes(blake3::hash(&b).as_bytes().to_vec()))?;
                }
                _ => return Err(StepErr::Fail),
            },
            ROp::SigEOk(n) => {
                let msg = self.pop()?;
                let pk = self.pop()?;
                let sig = self.pop()?;
                let pk = match pk {
                    RVal::Bytes(b) => b,
                    _ => return Err(StepErr::Fail),
                };
                if pk.len() > 32 {
                    self.push(int_u128(0))?;
                } else {
                    if pk.len() != 32 {
                        return Err(StepErr::Fail);
                    }
                    let msg = match msg {
                        RVal::Bytes(b) => b,
                        _ => return Err(StepErr::Fail),
                    };
                    if msg.len() > n as usize {
                        return Err(StepErr::Fail);
                    }
                    let sig = match sig {
                        RVal::Bytes(b) => b,
                        _ => return Err(StepErr::Fail),
                    };
                    let ok = if sig.len() > 64 { false } else { ed25519_verify(&pk, &msg, &sig) };
                    self.sig_ok += ok as u64;
                    self.push(int_u128(ok as u128))?;
                }
            }
            ROp::Store => {
                let a = small(&self.pop_int()?).ok_or(StepErr::Fail)?;
                let v = self.pop()?;
                self.heap.insert(a, v);
            }
            ROp::Load => {
                let a = small(&self.pop_int()?).ok_or(StepErr::Fail)?;
                let v = self.heap.get(&a).ok_or(StepErr::Fail)?.clone();
                self.push(v)?;
            }
            ROp::StoreImm(a) => {
                let v = self.pop()?;
                self.heap.insert(a, v);
            }
            ROp::LoadImm(a) => {
                let v = self.heap.get(&a).ok_or(StepErr::Fail)?.clone();
                self.push(v)?;
            }
            ROp::VRef => {
                let v = self.pop()?;
                let i = self.pop()?;
                let i = match i {
                    RVal::Int(i) => small(&i).ok_or(StepErr::Fail)? as usize,
                    _ => return Err(StepErr::Fail),
                };
                match v {
                    RVal::Vec(v) => {
                        let e = v.get(i).ok_or(StepErr::Fail)?.clone();
                        self.push(e)?
                    }
                    _ => return Err(StepErr::Fail),
                }
            }
            ROp::VSet => {
                let v = self.pop()?;
                let i = self.pop()?;
                let x = self.pop()?;
                let i = match i {
                    RVal::Int(i) => small(&i).ok_or(StepErr::Fail)? as usize,
                    _ => return Err(StepErr::Fail),
                };
                match v {
                    RVal::Vec(mut v) => {
                        *v.get_mut(i).ok_or(StepErr::Fail)? = x;
                        self.push(RVal::Vec(v))?
                    }
                    _ => return Err(StepErr::Fail),
                }
            }
            ROp::VAppend => {
                let a = self.pop()?;
                let b = self.pop()?;
                match (a, b) {
                    (RVal::Vec(mut a), RVal::Vec(b)) => {
                        a.extend(b);
                        self.push(RVal::Vec(a))?
                    }
                    _ => return Err(StepErr::Fail),
                }
            }
            ROp::VSlice | ROp::BSlice => {
                let v = self.pop()?;
                let b = self.pop()?;
                let e = self.pop()?;
                let b = match b {
                    RVal::Int(i) => small(&i).ok_or(StepErr::Fail)? as usize,
                    _ => return Err(StepErr::Fail),
                };
                let e = match e {
                    RVal::Int(i) => small(&i).ok_or(StepErr::Fail)? as usize,
                    _ => return Err(StepErr::Fail),
                };
                match (v, &op) {
                    (RVal::Vec(v), ROp::VSlice) => {
                        if e > v.len() || e < b {
                            self.push(RVal::Vec(vec![]))?
                        } else {
                            self.push(RVal::Vec(v[b..e].to_vec()))?
                        }
                    }
                    (RVal::Bytes(v), ROp::BSlice) => {
                        if e > v.len() || e < b {
                            self.push(RVal::Bytes(vec![]))?
                        } else {
                            self.push(RVal::Bytes(v[b..e].to_vec()))?
                        }
                    }
                    _ => return Err(StepErr::Fail),
                }
            }
            ROp::VLength => match self.pop()? {
                RVal::Vec(v) => self.push(int_u128(v.len() as u128))?,
                _ => return Err(StepErr::Fail),
            },
            ROp::VEmpty => self.push(RVal::Vec(vec![]))?,
            ROp::VPush => {
                let v = self.pop()?;
                let x = self.pop()?;
                match v {
                    RVal::Vec(mut v) => {
                        v.push(x);
                        self.push(RVal::Vec(v))?
                    }
                    _ => return Err(StepErr::Fail),
                }
            }
            ROp::VCons => {
                let x = self.pop()?;
                let v = self.pop()?;
                match v {
                    RVal::Vec(mut v) => {
                        v.insert(0, x);
                        self.push(RVal::Vec(v))?
                    }
                    _ => return Err(StepErr::Fail),
                }
            }
            ROp::BEmpty => self.push(RVal::Bytes(vec![]))?,
            ROp::BPush => {
                let v = self.pop()?;
                let x = self.pop()?;
                match (v, x) {
                    (RVal::Bytes(mut v), RVal::Int(x)) => {
                        v.push(x[31]);
                        self.push(RVal::Bytes(v))?
                    }
                    _ => return Err(StepErr::Fail),
                }
            }
            ROp::BCons => {
                let x = self.pop()?;
                let v = self.pop()?;
                match (v, x) {
                    (RVal::Bytes(mut v), RVal::Int(x)) => {
                        v.insert(0, x[31]);
                        self.push(RVal::Bytes(v))?
                    }
                    _ => return Err(StepErr::Fail),
                }
            }
            ROp::BRef => {
                let v = self.pop()?;
                let i = self.pop()?;
                let i = match i {
                    RVal::Int(i) => small(&i).ok_or(StepErr::Fail)? as usize,
                    _ => return Err(StepErr::Fail),
                };
                match v {
                    RVal::Bytes(v) => {
                        let e = *v.get(i).ok_or(StepErr::Fail)?;
                        self.push(int_u128(e as u128))?
                    }
                    _ => return Err(StepErr::Fail),
                }
            }
            ROp::BSet => {
                let v = self.pop()?;
                let i = self.pop()?;
                let x = self.pop()?;
                let i = match i {
                    RVal::Int(i) => small(&i).ok_or(StepErr::Fail)? as usize,
                    _ => return Err(StepErr::Fail),
                };
                match (v, x) {
                    (RVal::Bytes(mut v), x) => {
                        let slot = v.get_mut(i).ok_or(StepErr::Fail)?;
                        match x {
                            RVal::Int(x) => *slot = x[31],
                            _ => return Err(StepErr::Fail),
                        }
                        self.push(RVal::Bytes(v))?
                    }
                    _ => return Err(StepErr::Fail),
                }
            }
            ROp::BAppend => {
                let a = self.pop()?;
                let b = self.pop()?;
                match (a, b) {
                    (RVal::Bytes(mut a), RVal::Bytes(b)) => {
                        if (a.len() + b.len()) / 32 > self.size_cap {
                            return Err(StepErr::Budget);
                        }
                        a.extend(b);
                        self.push(RVal::Bytes(a))?
                    }
                    _ => return Err(StepErr::Fail),
                }
            }
            ROp::BLength => match self.pop()? {
                RVal::Bytes(v) => self.push(int_u128(v.len() as u128))?,
                _ => return Err(StepErr::Fail),
            },
            ROp::Bez(j) => {
                let top = self.pop()?;
                let zero = matches!(&top, RVal::Int(i) if is_zero(i));
                if zero {
                    self.pc += j as usize;
                    self.jumps_taken += 1;
                }
            }
            ROp::Bnz(j) => {
                let top = self.pop()?;
                let zero = matches!(&top, RVal::Int(i) if is_zero(i));
                if !zero {
                    self.pc += j as usize;
                    self.jumps_taken += 1;
                }
            }
            ROp::Jmp(j) => {
                self.pc += j as usize;
                self.jumps_taken += 1;
            }
            ROp::Loop(n, m) => {
                if n == 0 {
                    self.pc += m as usize;
                } else {
                    // body = the next m instructions: pc ..= pc+m-1
                    let end = (self.pc + m as usize).wrapping_sub(1);
                    if let Some((_, outer_end, _)) = self.loops.last() {
                        if end > *outer_end {
                            return Err(StepErr::Fail);
                        }
                    }
                    self.loops.push((self.pc, end, n - 1));
                }
            }
            ROp::BtoI => match self.pop()? {
                RVal::Bytes(b) => {
                    if b.len() != 32 {
                        return Err(StepErr::Fail);
                    }
                    self.push(RVal::Int(b.try_into().unwrap()))?
                }
                _ => return Err(StepErr::Fail),
            },
            ROp::ItoB => match self.pop()? {
                RVal::Int(i) => self.push(RVal::Bytes(i.to_vec()))?,
                _ => return Err(StepErr::Fail),
            },
            ROp::TypeQ => {
                let t = match self.pop()? {
                    RVal::Int(_) => 0,
                    RVal::Bytes(_) => 1,
                    RVal::Vec(_) => 2,
                };
                self.push(int_u128(t))?
            }
            ROp::PushB(b) => self.push(RVal::Bytes(b))?,
            ROp::PushI(i) | ROp::PushIC(i) => self.push(RVal::Int(i))?,
            ROp::Dup => {
                let v = self.pop()?;
                self.push(v.clone())?;
                self.push(v)?;
            }
        }
        Ok(())
    }

    fn bookkeeping(&mut self) {
        // counted loops: when control leaves the body by falling off its end (exactly one past the
        // last body instruction) and iterations remain, go round again; any other exit abandons the loop
        while let Some((begin, end, left)) = self.loops.last().copied() {
            if self.pc > end {
                if left > 0 && self.pc == end.wrapping_add(1) {
                    let l = self.loops.last_mut().unwrap();
                    l.2 -= 1;
                    self.pc = begin;
                    self.loops_iterated += 1;
                    break;
                } else {
                    self.loops.pop();
                }
            } else {
                break;
            }
        }
    }

    pub fn run(&mut self, max_steps: u64) -> RunEnd {
        while self.pc < self.ops.len() {
            if self.steps >= max_steps {
                return RunEnd::Budget;
            }
            match self.step() {
                Ok(()) => {}
                Err(StepErr::Fail) => return RunEnd::Fail,
                Err(StepErr::Budget) => return RunEnd::Budget,
            }
            self.bookkeeping();
        }
        RunEnd::Done(self.stack.pop())
    }
}

pub fn kind_tag(op: &ROp) -> u8 {
    encode(std::slice::from_ref(op)).map(|b| b[0]).unwrap_or(0xf0)
}

fn ed25519_verify(pk: &[u8], msg: &[u8], sig: &[u8]) -> bool {
    let pk: [u8; 32] = match pk.try_into() {
        Ok(p) => p,
        Err(_) => return false,
    };
    let sig: [u8; 64] = match sig.try_into() {
        Ok(s) => s,
        Err(_) => return false,
    };
    match ed25519_consensus::VerificationKey::try_from(pk) {
        Ok(vk) => vk.verify(&ed25519_consensus::Signature::from(sig), msg).is_ok(),
        Err(_) => false,
    }
}

pub fn truthy(v: &RVal) -> bool {
    match v {
        RVal::Int(i) => !is_zero(i),
        _ => true,
    }
}

// ---------------------------------------------------------------------------------------------
// environment -> heap

fn rbytes(b: &[u8]) -> RVal {
    RVal::Bytes(b.to_vec())
}

pub fn tx_to_rval(tx: &Transaction) -> RVal {
    RVal::Vec(vec![
        int_u128(u8::from(tx.kind) as u128),
        RVal::Vec(
            tx.inputs
                .iter()
                .map(|c| RVal::Vec(vec![rbytes(&c.txhash.0 .0), int_u128(c.index as u128)]))
                .collect(),
        ),
        RVal::Vec(
            tx.outputs
                .iter()
                .map(|o| {
                    RVal::Vec(vec![
                        rbytes(&o.covhash.0 .0),
                        int_u128(o.value.0),
                        rbytes(&o.denom.to_bytes()),
                        rbytes(&o.additional_data),
                    ])
                })
                .collect(),
        ),
        int_u128(tx.fee.0),
        RVal::Vec(tx.covenants.iter().map(|c| rbytes(c)).collect()),
        rbytes(&tx.data),
        RVal::Vec(tx.sigs.iter().map(|c| rbytes(c)).collect()),
    ])
}

pub fn header_to_rval(h: &Header) -> RVal {
    RVal::Vec(vec![
        int_u128(u8::from(h.network) as u128),
        rbytes(&h.previous.0),
        int_u128(h.height.0 as u128),
        rbytes(&h.history_hash.0),
        rbytes(&h.coins_hash.0),
        rbytes(&h.transactions_hash.0),
        int_u128(h.fee_pool.0),
        int_u128(h.fee_multiplier),
        int_u128(h.dosc_speed),
        rbytes(&h.pools_hash.0),
        rbytes(&h.stakes_hash.0),
    ])
}

#[derive(Clone, Debug)]
pub struct REnv {
    pub coin_id: CoinID,
    pub cdh: CoinDataHeight,
    pub spender_index: u64,
    pub last_header: Header,
}

/// Heap layout per the documented addresses: 0 tx, 1 tx hash, 2 parent tx hash, 3 parent index, 4 own hash,
/// 5 value, 6 denomination, 7 additional data, 8 creation height, 9 spender index, 10 previous header.
pub fn env_heap(tx: &Transaction, env: Option<&REnv>) -> HashMap<u16, RVal> {
    let mut h = HashMap::new();
    h.insert(0, tx_to_rval(tx));
    h.insert(1, rbytes(&tx.hash_nosigs().0 .0));
    if let Some(e) = env {
        h.insert(2, rbytes(&e.coin_id.txhash.0 .0));
        h.insert(3, int_u128(e.coin_id.index as u128));
        h.insert(4, rbytes(&e.cdh.coin_data.covhash.0 .0));
        h.insert(5, int_u128(e.cdh.coin_data.value.0));
        h.insert(6, rbytes(&e.cdh.coin_data.denom.to_bytes()));
        h.insert(7, rbytes(&e.cdh.coin_data.additional_data));
        h.insert(8, int_u128(e.cdh.height.0 as u128));
        h.insert(9, int_u128(e.spender_index as u128));
        h.insert(10, header_to_rval(&e.last_header));
    }
    h
}

/// Evaluate covenant bytes for one input; Some(true/false) or None when the reference ran out of budget.
pub fn approves(cov_bytes: &[u8], tx: &Transaction, env: &REnv, max_steps: u64) -> Option<bool> {
    let ops = match decode(cov_bytes) {
        Ok(o) => o,
        Err(_) => return Some(false),
    };
    let mut ex = RefExec::new(&ops, env_heap(tx, Some(env)));
    match ex.run(max_steps) {
        RunEnd::Done(Some(v)) => Some(truthy(&v)),
        RunEnd::Done(None) | RunEnd::Fail => Some(false),
        RunEnd::Budget => None,
    }
}

// ---------------------------------------------------------------------------------------------
// conversion of the implementation's types, for comparison

pub fn from_real_value(v: &melvm::Value) -> RVal {
    match v {
        melvm::Value::Int(i) => RVal::Int(i.to_be_bytes()),
        melvm::Value::Bytes(b) => {
            let v: Vec<u8> = b.clone().into();
            RVal::Bytes(v)
        }
        melvm::Value::Vector(v) => {
            let v: Vec<melvm::Value> = v.clone().into();
            RVal::Vec(v.iter().map(from_real_value).collect())
        }
    }
}

pub fn to_real_value(v: &RVal) -> melvm::Value {
    match v {
        RVal::Int(i) => melvm::Value::Int(U256::from_be_bytes(*i)),
        RVal::Bytes(b) => melvm::Value::Bytes(b.as_slice().into()),
        RVal::Vec(v) => melvm::Value::Vector(v.iter().map(to_real_value).collect::<Vec<_>>().into()),
    }
}

pub fn from_real_op(op: &melvm::opcode::OpCode) -> ROp {
    use melvm::opcode::OpCode as O;
    match op {
        O::Noop => ROp::Noop,
        O::Add => ROp::Add,
        O::Sub => ROp::Sub,
        O::Mul => ROp::Mul,
        O::Div => ROp::Div,
        O::Rem => ROp::Rem,
        O::Exp(k) => ROp::Exp(*k),
        O::And => ROp::And,
        O::Or => ROp::Or,
        O::Xor => ROp::Xor,
        O::Not => ROp::Not,
        O::Eql => ROp::Eql,
        O::Lt => ROp::Lt,
        O::Gt => ROp::Gt,
        O::Shl => ROp::Shl,
        O::Shr => ROp::Shr,
        O::Hash(n) => ROp::Hash(*n),
        O::SigEOk(n) => ROp::SigEOk(*n),
        O::Store => ROp::Store,
        O::Load => ROp::Load,
        O::StoreImm(n) => ROp::StoreImm(*n),
        O::LoadImm(n) => ROp::LoadImm(*n),
        O::VRef => ROp::VRef,
        O::VAppend => ROp::VAppend,
        O::VEmpty => ROp::VEmpty,
        O::VLength => ROp::VLength,
        O::VSlice => ROp::VSlice,
        O::VSet => ROp::VSet,
        O::VPush => ROp::VPush,
        O::VCons => ROp::VCons,
        O::BRef => ROp::BRef,
        O::BAppend => ROp::BAppend,
        O::BEmpty => ROp::BEmpty,
        O::BLength => ROp::BLength,
        O::BSlice => ROp::BSlice,
        O::BSet => ROp::BSet,
        O::BPush => ROp::BPush,
        O::BCons => ROp::BCons,
        O::Bez(n) => ROp::Bez(*n),
        O::Bnz(n) => ROp::Bnz(*n),
        O::Jmp(n) => ROp::Jmp(*n),
        O::Loop(a, b) => ROp::Loop(*a, *b),
        O::ItoB => ROp::ItoB,
        O::BtoI => ROp::BtoI,
        O::TypeQ => ROp::TypeQ,
        O::PushB(b) => ROp::PushB(b.clone()),
        O::PushI(i) => ROp::PushI(i.to_be_bytes()),
        O::PushIC(i) => ROp::PushIC(i.to_be_bytes()),
        O::Dup => ROp::Dup,
    }
}

pub fn to_real_op(op: &ROp) -> melvm::opcode::OpCode {
    use melvm::opcode::OpCode as O;
    match op {
        ROp::Noop => O::Noop,
        ROp::Add => O::Add,
        ROp::Sub => O::Sub,
        ROp::Mul => O::Mul,
        ROp::Div => O::Div,
        ROp::Rem => O::Rem,
        ROp::Exp(k) => O::Exp(*k),
        ROp::And => O::And,
        ROp::Or => O::Or,
        ROp::Xor => O::Xor,
        ROp::Not => O::Not,
        ROp::Eql => O::Eql,
        ROp::Lt => O::Lt,
        ROp::Gt => O::Gt,
        ROp::Shl => O::Shl,
        ROp::Shr => O::Shr,
        ROp::Hash(n) => O::Hash(*n),
        ROp::SigEOk(n) => O::SigEOk(*n),
        ROp::Store => O::Store,
        ROp::Load => O::Load,
        ROp::StoreImm(n) => O::StoreImm(*n),
        ROp::LoadImm(n) => O::LoadImm(*n),
        ROp::VRef => O::VRef,
        ROp::VAppend => O::VAppend,
        ROp::VEmpty => O::VEmpty,
        ROp::VLength => O::VLength,
        ROp::VSlice => O::VSlice,
        ROp::VSet => O::VSet,
        ROp::VPush => O::VPush,
        ROp::VCons => O::VCons,
        ROp::BRef => O::BRef,
        ROp::BAppend => O::BAppend,
        ROp::BEmpty => O::BEmpty,
        ROp::BLength => O::BLength,
        ROp::BSlice => O::BSlice,
        ROp::BSet => O::BSet,
        ROp::BPush => O::BPush,
        ROp::BCons => O::BCons,
        ROp::Bez(n) => O::Bez(*n),
        ROp::Bnz(n) => O::Bnz(*n),
        ROp::Jmp(n) => O::Jmp(*n),
        ROp::Loop(a, b) => O::Loop(*a, *b),
        ROp::ItoB => O::ItoB,
        ROp::BtoI => O::BtoI,
        ROp::TypeQ => O::TypeQ,
        ROp::PushB(b) => O::PushB(b.clone()),
        ROp::PushI(i) => O::PushI(U256::from_be_bytes(*i)),
        ROp::PushIC(i) => O::PushIC(U256::from_be_bytes(*i)),
        ROp::Dup => O::Dup,
    }
}

pub fn show_ops(ops: &[ROp]) -> String {
    ops.iter()
        .map(|o| match o {
            ROp::PushI(b) | ROp::PushIC(b) => {
                let n = big(b);
                let tag = if matches!(o, ROp::PushI(_)) { "pushi" } else { "pushic" };
                if n.bits() <= 64 {
                    format!("{} {}", tag, n)
                } else {
                    format!("{} 0x{}", tag, hex::encode(b))
                }
            }
            ROp::PushB(b) => format!("pushb {}", if b.len() > 16 { format!("<{}B>", b.len()) } else { hex::encode(b) }),
            other => format!("{:?}", other).to_lowercase(),
        })
        .collect::<Vec<_>>()
        .join("; ")
}
