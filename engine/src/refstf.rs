//! RefSTF: an independent, map-based reference for the state-transition function, written from the
//! property statements and DESIGN Appendix A. It works on decoded snapshots (`Snap`).
use std::collections::{BTreeMap, BTreeSet, HashMap};

use melstructs::{
    Address, BlockHeight, CoinData, CoinDataHeight, CoinID, CoinValue, Denom, Header, NetID, PoolKey, PoolState,
    ProposerAction, StakeDoc, Transaction, TxHash, TxKind,
};
use num::{BigUint, Integer, One, Zero};

use crate::refvm::{self, REnv};
use crate::world::{faucet_marker, Snap};

pub const MAX_COINVAL: u128 = 1u128 << 120;
pub const GRANDFATHERED_FAUCET: &str = "30a60b20830f000f755b70c57c998553a303cc11f8b1f574d5e9f7e26b645d8b";

#[derive(Clone, Copy, Debug)]
pub struct Tips {
    pub t901: bool,
    pub t902: bool,
    pub t906: bool,
    pub t908: bool,
    pub t909: bool,
    pub t909a: bool,
}

pub fn tips_at(net: NetID, height: u64) -> Tips {
    let on = |act: u64| match net {
        NetID::Mainnet => height >= act,
        NetID::Testnet => height >= 500,
        _ => true,
    };
    Tips {
        t901: on(42_700),
        t902: on(180_000),
        t906: on(830_000),
        t908: net == NetID::Custom08,
        t909: on(950_000),
        t909a: on(1_048_000),
    }
}

pub fn legacy_net(net: NetID) -> bool {
    net == NetID::Mainnet || net == NetID::Testnet
}

#[derive(Clone, Debug, PartialEq, Eq)]
pub enum Reason {
    Malformed,
    MissingInput(CoinID),
    DoubleSpend(CoinID),
    Locked(CoinID),
    NoCovenant(CoinID),
    BadCovenant(CoinID),
    CovenantRejects(CoinID),
    Unbalanced(String),
    FeeTooLow { min: u128, paid: u128 },
    FaucetOnMainnet,
    FaucetDuplicate,
    BadStakeDoc,
    BadMint(String),
}

impl Reason {
    pub fn class(&self) -> &'static str {
        match self {
            Reason::Malformed => "malformed",
            Reason::MissingInput(_) => "missing-input",
            Reason::DoubleSpend(_) => "double-spend",
            Reason::Locked(_) => "locked",
            Reason::NoCovenant(_) => "no-covenant",
            Reason::BadCovenant(_) => "bad-covenant",
            Reason::CovenantRejects(_) => "covenant-rejects",
            Reason::Unbalanced(_) => "unbalanced",
            Reason::FeeTooLow { .. } => "fee-too-low",
            Reason::FaucetOnMainnet => "faucet-mainnet",
            Reason::FaucetDuplicate => "faucet-duplicate",
            Reason::BadStakeDoc => "bad-stake-doc",
            Reason::BadMint(_) => "bad-mint",
        }
    }
}

/// What the properties make *necessary* for acceptance. `unspecified` marks batches on which the
/// properties do not fix the outcome (the harness then draws no conclusion from accept/reject).
#[derive(Clone, Debug)]
pub struct Verdict {
    pub reject: Option<Reason>,
    pub unspecified: Option<&'static str>,
    /// per accepted transaction: (min fee, tip)
    pub fees: Vec<(u128, u128)>,
    pub weights: Vec<u128>,
}

pub struct RefCtx<'a> {
    /// header of a sealed block by height (inputs to covenants and MelPoW puzzles)
    pub header_at: &'a dyn Fn(u64) -> Option<Header>,
    /// budget for covenant evaluation
    pub max_steps: u64,
}

pub fn tx_weight(tx: &Transaction) -> u128 {
    let raw = stdcode::serialize(tx).unwrap().len() as u128;
    let cov: u128 = tx.covenants.iter().fold(0u128, |a, c| a.saturating_add(refvm::weight_from_bytes(c)));
    raw.saturating_add(cov)
        .saturating_add(1000 * tx.outputs.len() as u128)
        .saturating_sub(1000 * tx.inputs.len() as u128)
}

pub fn min_fee(tx: &Transaction, mult: u128) -> u128 {
    tx_weight(tx).saturating_mul(mult) >> 16
}

pub fn created_coins(tx: &Transaction, height: u64) -> Vec<(CoinID, CoinDataHeight)> {
    let h = tx.hash_nosigs();
    let mut v = vec![];
    for (i, o) in tx.outputs.iter().enumerate() {
        if o.covhash == Address(tmelcrypt::HashVal::default()) {
            continue; // destruction address
        }
        let mut cd = o.clone();
        if cd.denom == Denom::NewCustom {
            cd.denom = Denom::Custom(h);
        }
        v.push((CoinID::new(h, i as u8), CoinDataHeight { coin_data: cd, height: BlockHeight(height) }));
    }
    v
}

fn well_formed(tx: &Transaction) -> bool {
    tx.outputs.len() <= 255 && tx.fee.0 <= MAX_COINVAL && tx.outputs.iter().all(|o| o.value.0 <= MAX_COINVAL)
}

pub fn stake_regime_legacy(net: NetID, height: u64) -> bool {
    legacy_net(net) && height < 500_000
}
pub fn lock_regime_legacy(net: NetID, height: u64) -> bool {
    legacy_net(net) && height < 900_000
}

/// Reference batch application. Returns the verdict and, when nothing forbids acceptance, the post-state.
pub fn apply_batch(pre: &Snap, txs: &[Transaction], ctx: &RefCtx) -> (Verdict, Option<Snap>) {
    let mut verdict = Verdict { reject: None, unspecified: None, fees: vec![], weights: vec![] };
    let h = pre.height;
    macro_rules! reject {
        ($r:expr) => {{
            verdict.reject = Some($r);
            return (verdict, None);
        }};
    }
    for tx in txs {
        if !well_formed(tx) {
            reject!(Reason::Malformed);
        }
    }
    // every output of the batch is known before any input is resolved
    let mut created: BTreeMap<CoinID, CoinDataHeight> = BTreeMap::new();
    for tx in txs {
        for (id, cdh) in created_coins(tx, h) {
            created.insert(id, cdh);
        }
    }
    let lookup = |id: &CoinID| -> Option<CoinDataHeight> { created.get(id).cloned().or_else(|| pre.coins.get(id).cloned()) };
    let mut spent: BTreeSet<CoinID> = BTreeSet::new();
    for tx in txs {
        for i in tx.inputs.iter() {
            if lookup(i).is_none() {
                reject!(Reason::MissingInput(*i));
            }
        }
    }
    for tx in txs {
        for i in tx.inputs.iter() {
            if !spent.insert(*i) {
                reject!(Reason::DoubleSpend(*i));
            }
        }
    }
    // stakes
    let mut new_stakes: BTreeMap<TxHash, StakeDoc> = BTreeMap::new();
    for tx in txs {
        if tx.kind == TxKind::Stake {
            if stake_regime_legacy(pre.net, h) {
                continue;
            }
            let doc: StakeDoc = match stdcode::deserialize(&tx.data) {
                Ok(d) => d,
                Err(_) => reject!(Reason::BadStakeDoc),
            };
            let first = match tx.outputs.first() {
                Some(f) => f,
                None => reject!(Reason::BadStakeDoc),
            };
            if first.denom != Denom::Sym {
                reject!(Reason::BadStakeDoc);
            }
            let epoch = h / 200_000;
            if doc.e_start > epoch && doc.e_post_end > doc.e_start && doc.syms_staked == first.value {
                new_stakes.insert(tx.hash_nosigs(), doc);
            }
        }
    }
    let last_header = if h > 0 { (ctx.header_at)(h - 1) } else { None };
    for tx in txs {
        // locks
        if !lock_regime_legacy(pre.net, h) {
            for i in tx.inputs.iter() {
                if new_stakes.contains_key(&i.txhash) || pre.stakes.contains_key(&i.txhash) {
                    if i.index == 0 {
                        reject!(Reason::Locked(*i));
                    } else {
                        verdict.unspecified = Some("spends a non-first output of a staking transaction");
                    }
                }
            }
        }
        // covenants, per input, each on its own environment
        let cov_by_hash: HashMap<Address, &bytes::Bytes> =
            tx.covenants.iter().map(|c| (Address(tmelcrypt::hash_single(c)), c)).collect();
        let mut seen_hash: BTreeMap<Address, bool> = BTreeMap::new();
        for (idx, i) in tx.inputs.iter().enumerate() {
            let cdh = lookup(i).unwrap();
            let cov = match cov_by_hash.get(&cdh.coin_data.covhash) {
                Some(c) => *c,
                None => reject!(Reason::NoCovenant(*i)),
            };
            if refvm::decode(cov).is_err() {
                reject!(Reason::BadCovenant(*i));
            }
            let hdr = match last_header {
                Some(hh) => hh,
                None => {
                    // height 0: the "previous header" is an artefact of the implementation; only
                    // header-independent covenants are generated there
                    dummy_header(pre.net)
                }
            };
            if idx > 255 {
                verdict.unspecified = Some("more than 256 inputs (spender index is a byte)");
            }
            let env = REnv { coin_id: *i, cdh: cdh.clone(), spender_index: (idx % 256) as u64, last_header: hdr };
            match refvm::approves(cov, tx, &env, ctx.max_steps) {
                Some(true) => {}
                Some(false) => {
                    // D4 (known finding): the implementation evaluates a covenant once per covenant hash per
                    // transaction. If an earlier input with the same hash approved, the outcome is what C04 judges.
                    if seen_hash.get(&cdh.coin_data.covhash) == Some(&true) {
                        verdict.unspecified = Some("covenant shared by several inputs approves one and rejects another (C04 / KF-D4)");
                    } else {
                        reject!(Reason::CovenantRejects(*i));
                    }
                }
                None => verdict.unspecified = Some("covenant evaluation exceeded the reference budget"),
            }
            seen_hash.entry(cdh.coin_data.covhash).or_insert(true);
        }
        // balance
        if tx.kind != TxKind::Faucet {
            let mut ins: BTreeMap<Denom, BigUint> = BTreeMap::new();
            for i in tx.inputs.iter() {
                let cdh = lookup(i).unwrap();
                *ins.entry(cdh.coin_data.denom).or_insert_with(BigUint::zero) += BigUint::from(cdh.coin_data.value.0);
            }
            let mut outs: BTreeMap<Denom, BigUint> = BTreeMap::new();
            for o in tx.outputs.iter() {
                *outs.entry(o.denom).or_insert_with(BigUint::zero) += BigUint::from(o.value.0);
            }
            *outs.entry(Denom::Mel).or_insert_with(BigUint::zero) += BigUint::from(tx.fee.0);
            for (d, v) in outs.iter() {
                if *d == Denom::NewCustom || (tx.kind == TxKind::DoscMint && *d == Denom::Erg) {
                    continue;
                }
                let inv = ins.get(d).cloned().unwrap_or_else(BigUint::zero);
                if inv != *v {
                    // zero out with no input of that denomination is balanced as far as the property goes;
                    // the implementation rejects it, which is over-rejection, not a violation
                    if v.is_zero() {
                        verdict.unspecified = Some("zero-valued output of a denomination that is not among the inputs");
                        continue;
                    }
                    reject!(Reason::Unbalanced(format!("{:?}: in {} out {}", d, inv, v)));
                }
            }
        }
        // fee
        let w = tx_weight(tx);
        let minf = w.saturating_mul(pre.fee_mult) >> 16;
        if tx.fee.0 < minf {
            reject!(Reason::FeeTooLow { min: minf, paid: tx.fee.0 });
        }
        verdict.weights.push(w);
        verdict.fees.push((minf, tx.fee.0 - minf));
    }
    // faucets
    let mut markers: BTreeSet<CoinID> = BTreeSet::new();
    for tx in txs {
        if tx.kind == TxKind::Faucet {
            let hs = tx.hash_nosigs();
            let grandfathered = hs.0.to_string() == GRANDFATHERED_FAUCET;
            if pre.net == NetID::Mainnet && !grandfathered {
                reject!(Reason::FaucetOnMainnet);
            }
            let m = faucet_marker(hs);
            if pre.coins.contains_key(&m) || !markers.insert(m) {
                reject!(Reason::FaucetDuplicate);
            }
            if grandfathered {
                markers.remove(&m);
            }
        }
    }
    // ERG mints
    let mut speed = pre.dosc_speed;
    for tx in txs {
        if tx.kind == TxKind::DoscMint {
            match check_mint(pre, tx, &lookup, ctx) {
                Ok(s) => speed = speed.max(s),
                Err(MintErr::Reject(r)) => reject!(Reason::BadMint(r)),
                Err(MintErr::Unspecified(u)) => verdict.unspecified = Some(u),
            }
        }
    }
    // ---- post-state
    let mut post = pre.clone();
    for (id, cdh) in created.iter() {
        post.coins.insert(*id, cdh.clone());
    }
    for id in spent.iter() {
        post.coins.remove(id);
    }
    for m in markers {
        post.coins.insert(
            m,
            CoinDataHeight {
                coin_data: CoinData {
                    covhash: Address(tmelcrypt::HashVal::default()),
                    value: CoinValue(0),
                    denom: Denom::Mel,
                    additional_data: Default::default(),
                },
                height: BlockHeight(0),
            },
        );
    }
    for (minf, tip) in verdict.fees.iter() {
        post.fee_pool = post.fee_pool.saturating_add(*minf);
        post.tips = post.tips.saturating_add(*tip);
    }
    for (k, d) in new_stakes {
        post.stakes.insert(k, d);
    }
    post.dosc_speed = speed;
    // transactions of the block so far, sorted by hash, without duplicates
    let mut all: BTreeMap<TxHash, Transaction> = post.txs.iter().map(|t| (t.hash_nosigs(), t.clone())).collect();
    for tx in txs {
        all.insert(tx.hash_nosigs(), tx.clone());
    }
    post.txs = all.into_values().collect();
    post.counts = recount(&post.coins, tips_at(pre.net, h).t906);
    (verdict, Some(post))
}

pub fn recount(coins: &BTreeMap<CoinID, CoinDataHeight>, active: bool) -> BTreeMap<Address, u64> {
    let mut m = BTreeMap::new();
    if active {
        for c in coins.values() {
            *m.entry(c.coin_data.covhash).or_insert(0u64) += 1;
        }
    }
    m
}

pub fn dummy_header(net: NetID) -> Header {
    Header {
        network: net,
        previous: Default::default(),
        height: BlockHeight(0),
        history_hash: Default::default(),
        coins_hash: Default::default(),
        transactions_hash: Default::default(),
        fee_pool: CoinValue(0),
        fee_multiplier: 0,
        dosc_speed: 0,
        pools_hash: Default::default(),
        stakes_hash: Default::default(),
    }
}

// ---------------------------------------------------------------------------------------------
// ERG minting

pub enum MintErr {
    Reject(String),
    Unspecified(&'static str),
}

pub fn micro_per_dosc(height: u64) -> u128 {
    static TAB: std::sync::RwLock<Vec<u128>> = std::sync::RwLock::new(Vec::new());
    if let Some(v) = TAB.read().unwrap().get(height as usize) {
        return *v;
    }
    let mut t = TAB.write().unwrap();
    if t.is_empty() {
        t.push(1_000_000);
    }
    while t.len() <= height as usize {
        let last = *t.last().unwrap();
        t.push((last + 1).max(last + last / 2_000_000));
    }
    t[height as usize]
}

struct LegacyHash;
impl melpow::HashFunction for LegacyHash {
    fn hash(&self, b: &[u8], k: &[u8]) -> melpow::SVec<u8> {
        melpow::SVec::from_slice(blake3::keyed_hash(blake3::hash(k).as_bytes(), b).as_bytes())
    }
}
struct Tip910Hash;
impl melpow::HashFunction for Tip910Hash {
    fn hash(&self, b: &[u8], k: &[u8]) -> melpow::SVec<u8> {
        let mut r = blake3::keyed_hash(blake3::hash(k).as_bytes(), b);
        for _ in 0..99 {
            r = blake3::hash(r.as_bytes());
        }
        melpow::SVec::from_slice(r.as_bytes())
    }
}

/// reward in real DOSC, then converted to nominal ERG
pub fn mint_bound(work_factor: u128, difficulty: u32, age: u64, prev_speed: u128, height: u64) -> Option<(u128, u128)> {
    if age == 0 || difficulty >= 120 {
        return None;
    }
    let work = BigUint::from(work_factor) * (BigUint::one() << difficulty as usize);
    let speed_big = &work / BigUint::from(age);
    let speed: u128 = speed_big.clone().try_into().ok()?;
    let denom = BigUint::from(prev_speed) * BigUint::from(prev_speed) * BigUint::from(2880u32);
    if denom.is_zero() {
        return None;
    }
    let reward = (&work * &speed_big * BigUint::from(1_000_000u32)) / denom;
    let reward: u128 = reward.try_into().unwrap_or(u128::MAX);
    let nominal = BigUint::from(reward) * BigUint::from(micro_per_dosc(height)) / BigUint::from(1_000_000u32);
    let nominal: u128 = nominal.try_into().ok()?;
    Some((speed, nominal))
}

fn check_mint(
    pre: &Snap,
    tx: &Transaction,
    lookup: &dyn Fn(&CoinID) -> Option<CoinDataHeight>,
    ctx: &RefCtx,
) -> Result<u128, MintErr> {
    let first = tx.inputs.first().ok_or(MintErr::Reject("no inputs".into()))?;
    let cdh = lookup(first).ok_or(MintErr::Reject("missing".into()))?;
    let h = pre.height;
    let age = h.checked_sub(cdh.height.0).ok_or(MintErr::Reject("coin from the future".into()))?;
    if pre.net == NetID::Mainnet && age < 100 {
        return Err(MintErr::Reject("coin younger than 100 blocks on mainnet".into()));
    }
    if age == 0 {
        return Err(MintErr::Unspecified("mint spends a coin created in the same block (speed undefined)"));
    }
    let seed_header = (ctx.header_at)(cdh.height.0).ok_or(MintErr::Reject("no header at the coin's height".into()))?;
    let puzzle = tmelcrypt::hash_keyed(seed_header.hash(), &stdcode::serialize(first).unwrap());
    let (difficulty, proof_bytes): (u32, Vec<u8>) =
        stdcode::deserialize(&tx.data).map_err(|_| MintErr::Reject("data does not decode".into()))?;
    let proof = melpow::Proof::from_bytes(&proof_bytes).ok_or(MintErr::Reject("proof does not decode".into()))?;
    if difficulty == 0 || difficulty > 64 {
        return Err(MintErr::Reject("difficulty outside 1..=64".into()));
    }
    let legacy = crate::util::catch(|| proof.verify(&puzzle.0, difficulty as usize, LegacyHash));
    let is910 = match legacy {
        Ok(true) => false,
        Ok(false) => match crate::util::catch(|| proof.verify(&puzzle.0, difficulty as usize, Tip910Hash)) {
            Ok(true) => true,
            Ok(false) => return Err(MintErr::Reject("proof does not verify under either hash".into())),
            Err(_) => return Err(MintErr::Reject("structurally incomplete proof".into())),
        },
        Err(_) => match crate::util::catch(|| proof.verify(&puzzle.0, difficulty as usize, Tip910Hash)) {
            Ok(true) => true,
            _ => return Err(MintErr::Reject("structurally incomplete proof".into())),
        },
    };
    let prev = (ctx.header_at)(h - 1).ok_or(MintErr::Reject("no previous header".into()))?;
    let (speed, nominal) = mint_bound(if is910 { 100 } else { 1 }, difficulty, age, prev.dosc_speed, h)
        .ok_or(MintErr::Unspecified("reward arithmetic outside the modelled range"))?;
    let erg_out: BigUint = tx.outputs.iter().filter(|o| o.denom == Denom::Erg).map(|o| BigUint::from(o.value.0)).sum();
    if erg_out > BigUint::from(nominal) {
        return Err(MintErr::Reject(format!("mints {} ERG, bound {}", erg_out, nominal)));
    }
    Ok(speed)
}

// ---------------------------------------------------------------------------------------------
// sealing

fn isqrt(n: &BigUint) -> BigUint {
    n.sqrt()
}

fn to_u128_sat(n: &BigUint) -> u128 {
    n.clone().try_into().unwrap_or(u128::MAX)
}

/// constant-product batch swap with the 0.5% fee; returns (left paid out, right paid out)
pub fn pool_swap(p: &mut PoolState, in_l: u128, in_r: u128) -> (u128, u128) {
    p.lefts = p.lefts.saturating_add(in_l);
    p.rights = p.rights.saturating_add(in_r);
    let l = BigUint::from(p.lefts);
    let r = BigUint::from(p.rights);
    // out_r = floor(in_l * R' * 995 / (L' * 1000)); out_l = floor(in_r * L' * 995 / (R' * 1000))
    let out_r = if l.is_zero() { BigUint::zero() } else { BigUint::from(in_l) * &r * 995u32 / (&l * 1000u32) };
    let out_l = if r.is_zero() { BigUint::zero() } else { BigUint::from(in_r) * &l * 995u32 / (&r * 1000u32) };
    let out_l = to_u128_sat(&out_l);
    let out_r = to_u128_sat(&out_r);
    p.lefts -= out_l;
    p.rights -= out_r;
    if p.rights != 0 {
        p.price_accum = p.price_accum.wrapping_add(p.lefts.saturating_mul(1_000_000) / p.rights);
    }
    (out_l, out_r)
}

pub fn pool_deposit(p: &mut PoolState, a: u128, b: u128) -> u128 {
    if p.liqs == 0 {
        p.lefts = a;
        p.rights = b;
        p.liqs = a;
        a
    } else {
        let mels = a.saturating_add(p.lefts) - p.lefts;
        let toks = b.saturating_add(p.rights) - p.rights;
        let num = BigUint::from(p.liqs) * BigUint::from(p.liqs) * BigUint::from(mels) * BigUint::from(toks);
        let den = BigUint::from(p.lefts) * BigUint::from(p.rights);
        let d = if den.is_zero() { BigUint::zero() } else { isqrt(&(num / den)) };
        let d = to_u128_sat(&d);
        p.liqs = p.liqs.saturating_add(d);
        p.lefts += mels;
        p.rights += toks;
        d
    }
}

pub fn pool_withdraw(p: &mut PoolState, t: u128) -> (u128, u128) {
    if t >= p.liqs {
        let r = (p.lefts, p.rights);
        p.liqs = 0;
        p.lefts = 0;
        p.rights = 0;
        r
    } else {
        let l = to_u128_sat(&(BigUint::from(p.lefts) * BigUint::from(t) / BigUint::from(p.liqs)));
        let r = to_u128_sat(&(BigUint::from(p.rights) * BigUint::from(t) / BigUint::from(p.liqs)));
        p.liqs -= t;
        p.lefts -= l;
        p.rights -= r;
        (l, r)
    }
}

fn frac(x: u128, num: u128, den: u128) -> u128 {
    if den == 0 {
        return 0;
    }
    to_u128_sat(&(BigUint::from(x) * BigUint::from(num) / BigUint::from(den)))
}

pub fn builtin_pool() -> PoolState {
    PoolState { lefts: 1_000_000_000, rights: 1_000_000_000, price_accum: 0, liqs: 1_000_000_000 }
}

/// canonical pool named by `data`, if `data` is a canonical spelling; Some(None-like) handled by caller
pub fn canonical_key(data: &[u8]) -> Option<PoolKey> {
    let k = PoolKey::from_bytes(data)?;
    if k.left() == k.right() {
        return None;
    }
    // `NewCustom` is a placeholder ("this transaction's own new token"), not a denomination: the empty string - its
    // byte form - names no pool. A pool with such a side would be credited with coins of as many different
    // denominations as there are requesters, against C15's "each side ... its own denomination".
    if k.left() == Denom::NewCustom || k.right() == Denom::NewCustom {
        return None;
    }
    let c = PoolKey::new(k.left(), k.right());
    if c == k {
        Some(k)
    } else {
        None
    }
}

pub fn liq_denom(k: &PoolKey) -> Denom {
    k.liq_token_denom()
}

#[derive(Clone, Debug, Default)]
pub struct SealTrace {
    pub swaps: Vec<(PoolKey, Vec<TxHash>)>,
    pub deposits: Vec<(PoolKey, Vec<TxHash>)>,
    pub withdrawals: Vec<(PoolKey, Vec<TxHash>)>,
    pub peg_mel_in: u128,
    pub peg_sym_in: u128,
    pub subsidy_sym: u128,
    pub subsidy_mel_to_fee_pool: u128,
    pub reward: Option<u128>,
    /// blocks where the reference declines to predict exactly (zero totals etc.)
    pub unspecified: Option<&'static str>,
    /// degenerate request batches that are left unsettled
    pub skipped: Vec<&'static str>,
}

/// Reference sealing of `pre` (an unsealed snapshot) with `action`. Only canonical pool spellings are settled.
pub fn seal(pre: &Snap, action: Option<ProposerAction>) -> (Snap, SealTrace) {
    seal_with(pre, action, false)
}

/// `lenient`: treat every spelling of a pool key as naming the canonical pool (the other outcome the
/// properties allow for non-canonical spellings).
pub fn seal_with(pre: &Snap, action: Option<ProposerAction>, lenient: bool) -> (Snap, SealTrace) {
    let canonical_key = |data: &[u8]| -> Option<PoolKey> {
        if lenient {
            let k = PoolKey::from_bytes(data)?;
            if k.left() == k.right() {
                return None;
            }
            Some(PoolKey::new(k.left(), k.right()))
        } else {
            canonical_key(data)
        }
    };
    let mut s = pre.clone();
    let mut tr = SealTrace::default();
    let tips = tips_at(s.net, s.height);
    let h = s.height;
    // built-ins
    for k in [PoolKey::new(Denom::Mel, Denom::Sym), PoolKey::new(Denom::Mel, Denom::Erg)] {
        s.pools.entry(k).or_insert_with(builtin_pool);
    }
    if tips.t902 {
        s.pools.entry(PoolKey::new(Denom::Erg, Denom::Sym)).or_insert_with(builtin_pool);
    }
    let txs: Vec<Transaction> = s.txs.clone();
    // ---- swaps
    let mut by_pool: BTreeMap<PoolKey, Vec<&Transaction>> = BTreeMap::new();
    for tx in txs.iter() {
        if tx.kind != TxKind::Swap || tx.outputs.is_empty() {
            continue;
        }
        let k = match canonical_key(&tx.data) {
            Some(k) => k,
            None => continue,
        };
        if !s.pools.contains_key(&k) || !s.coins.contains_key(&CoinID::new(tx.hash_nosigs(), 0)) {
            continue;
        }
        if tx.outputs[0].denom != k.left() && tx.outputs[0].denom != k.right() {
            continue;
        }
        by_pool.entry(k).or_default().push(tx);
    }
    for (k, reqs) in by_pool.iter() {
        let mut p = *s.pools.get(k).unwrap();
        let in_l = reqs.iter().filter(|t| t.outputs[0].denom == k.left()).fold(0u128, |a, t| a.saturating_add(t.outputs[0].value.0));
        let in_r = reqs.iter().filter(|t| t.outputs[0].denom == k.right()).fold(0u128, |a, t| a.saturating_add(t.outputs[0].value.0));
        if p.lefts.saturating_add(in_l) == 0 || p.rights.saturating_add(in_r) == 0 {
            // no price: the requests stay unsettled
            tr.skipped.push("swap against a pool with an empty side");
            continue;
        }
        let (out_l, out_r) = pool_swap(&mut p, in_l, in_r);
        for t in reqs.iter() {
            let id = CoinID::new(t.hash_nosigs(), 0);
            let mut cd = t.outputs[0].clone();
            if cd.denom == k.left() {
                cd.denom = k.right();
                cd.value = CoinValue(frac(out_r, cd.value.0, in_l).min(MAX_COINVAL));
            } else {
                cd.denom = k.left();
                cd.value = CoinValue(frac(out_l, cd.value.0, in_r).min(MAX_COINVAL));
            }
            s.coins.insert(id, CoinDataHeight { coin_data: cd, height: BlockHeight(h) });
        }
        s.pools.insert(*k, p);
        tr.swaps.push((*k, reqs.iter().map(|t| t.hash_nosigs()).collect()));
    }
    // ---- deposits
    let mut by_pool: BTreeMap<PoolKey, Vec<&Transaction>> = BTreeMap::new();
    for tx in txs.iter() {
        if tx.kind != TxKind::LiqDeposit || tx.outputs.len() < 2 {
            continue;
        }
        let k = match canonical_key(&tx.data) {
            Some(k) => k,
            None => continue,
        };
        let hsh = tx.hash_nosigs();
        if !s.coins.contains_key(&CoinID::new(hsh, 0)) || !s.coins.contains_key(&CoinID::new(hsh, 1)) {
            continue;
        }
        if tx.outputs[0].denom != k.left() || tx.outputs[1].denom != k.right() {
            continue;
        }
        by_pool.entry(k).or_default().push(tx);
    }
    for (k, reqs) in by_pool.iter() {
        let a = reqs.iter().fold(0u128, |x, t| x.saturating_add(t.outputs[0].value.0));
        let b = reqs.iter().fold(0u128, |x, t| x.saturating_add(t.outputs[1].value.0));
        if a == 0 || b == 0 {
            tr.skipped.push("deposit batch with a zero side");
            continue;
        }
        let mut p = s.pools.get(k).copied().unwrap_or(PoolState { lefts: 0, rights: 0, price_accum: 0, liqs: 0 });
        let liqs_before = p.liqs;
        let minted = pool_deposit(&mut p, a, b);
        // the liquidity counter is a u128: a batch whose exact mint would take it past 2^128-1 cannot be recorded
        // truthfully. What the chain does with such a batch is not stated by any property; since fix D18 the code
        // leaves it unsettled, and the model follows (the independent evidence for that fix is C16's and C01's
        // oracle over the real state, not this line).
        if liqs_before > 0 && BigUint::from(liqs_before) + BigUint::from(minted) > BigUint::from(u128::MAX) {
            tr.skipped.push("deposit batch that would overflow the liquidity counter");
            continue;
        }
        s.pools.insert(*k, p);
        // shares: proportional to sqrt(a_i * b_i), rounded down, never more than what was minted in total
        // weights sqrt(a_i)*sqrt(b_i), shares taken out of the sum of the weights (so they add up to <= minted)
        let total_m: BigUint = reqs
            .iter()
            .map(|t| isqrt(&BigUint::from(t.outputs[0].value.0)) * isqrt(&BigUint::from(t.outputs[1].value.0)))
            .sum();
        for t in reqs.iter() {
            let hsh = t.hash_nosigs();
            let m = isqrt(&BigUint::from(t.outputs[0].value.0)) * isqrt(&BigUint::from(t.outputs[1].value.0));
            let share = if total_m.is_zero() { 0 } else { to_u128_sat(&(BigUint::from(minted) * m / &total_m)) };
            let mut cd = t.outputs[0].clone();
            cd.denom = liq_denom(k);
            cd.value = CoinValue(share);
            s.coins.insert(CoinID::new(hsh, 0), CoinDataHeight { coin_data: cd, height: BlockHeight(h) });
            if legacy_net(s.net) && h < 978_392 {
                tr.unspecified = Some("legacy deposit regime (second coin left unspent)");
            } else {
                s.coins.remove(&CoinID::new(hsh, 1));
            }
        }
        tr.deposits.push((*k, reqs.iter().map(|t| t.hash_nosigs()).collect()));
    }
    // ---- withdrawals
    let mut by_pool: BTreeMap<PoolKey, Vec<&Transaction>> = BTreeMap::new();
    for tx in txs.iter() {
        if tx.kind != TxKind::LiqWithdraw || tx.outputs.len() != 1 {
            continue;
        }
        let k = match canonical_key(&tx.data) {
            Some(k) => k,
            None => continue,
        };
        if !s.pools.contains_key(&k) || !s.coins.contains_key(&CoinID::new(tx.hash_nosigs(), 0)) {
            continue;
        }
        if tx.outputs[0].denom != liq_denom(&k) {
            continue;
        }
        by_pool.entry(k).or_default().push(tx);
    }
    for (k, reqs) in by_pool.iter() {
        let t_total = reqs.iter().fold(0u128, |x, t| x.saturating_add(t.outputs[0].value.0));
        let mut p = *s.pools.get(k).unwrap();
        if t_total > p.liqs || t_total == 0 {
            tr.skipped.push("withdrawal of nothing or of more liquidity than the pool records");
            continue;
        }
        // C16 demands that the built-in pools keep reserves after every block: a batch redeeming all of a built-in
        // pool's liquidity cannot be honoured (since fix D19 the code leaves it unsettled; before, the next sealing
        // panicked - the evidence for that fix is C09's and C16's, not this line)
        let builtin = [PoolKey::new(Denom::Mel, Denom::Sym), PoolKey::new(Denom::Mel, Denom::Erg), PoolKey::new(Denom::Erg, Denom::Sym)];
        if t_total == p.liqs && builtin.contains(k) {
            tr.skipped.push("withdrawal that would empty a built-in pool");
            continue;
        }
        let (pl, pr) = pool_withdraw(&mut p, t_total);
        s.pools.insert(*k, p);
        for t in reqs.iter() {
            let hsh = t.hash_nosigs();
            let mine = t.outputs[0].value.0;
            let mut c0 = t.outputs[0].clone();
            c0.denom = k.left();
            c0.value = CoinValue(frac(pl, mine, t_total));
            let c1 = CoinData {
                denom: k.right(),
                value: CoinValue(frac(pr, mine, t_total)),
                covhash: t.outputs[0].covhash,
                additional_data: t.outputs[0].additional_data.clone(),
            };
            s.coins.insert(CoinID::new(hsh, 0), CoinDataHeight { coin_data: c0, height: BlockHeight(h) });
            s.coins.insert(CoinID::new(hsh, 1), CoinDataHeight { coin_data: c1, height: BlockHeight(h) });
        }
        tr.withdrawals.push((*k, reqs.iter().map(|t| t.hash_nosigs()).collect()));
    }
    // ---- pegging
    {
        let ms = PoolKey::new(Denom::Mel, Denom::Sym);
        let me = PoolKey::new(Denom::Mel, Denom::Erg);
        let es = PoolKey::new(Denom::Erg, Denom::Sym);
        // syms per ERG as a fraction (num, den)
        let (x_num, x_den): (BigUint, BigUint) = if tips.t902 {
            let p = s.pools[&es];
            // pool is (ERG left, SYM right): syms per erg = rights / lefts
            (BigUint::from(p.rights), BigUint::from(p.lefts))
        } else {
            let a = s.pools[&ms]; // (MEL, SYM): syms per mel = rights/lefts
            let b = s.pools[&me]; // (MEL, ERG): ergs per mel = rights/lefts
            // syms per erg = (a.rights/a.lefts) / (b.rights/b.lefts)
            (BigUint::from(a.rights) * BigUint::from(b.lefts), BigUint::from(a.lefts) * BigUint::from(b.rights))
        };
        let theta: u128 = if tips.t902 { 200 } else { 1000 };
        let mut p = s.pools[&ms];
        if x_num.is_zero() || x_den.is_zero() {
            tr.unspecified = Some("peg price undefined (empty built-in pool side)");
        } else {
            let k = BigUint::from(p.lefts) * BigUint::from(p.rights);
            // target syms per mel: t = inflator * x = (mu/1e6) * x_num/x_den
            let mu = BigUint::from(micro_per_dosc(h));
            let t_num = &mu * &x_num;
            let t_den = BigUint::from(1_000_000u32) * &x_den;
            let mel_star = to_u128_sat(&isqrt(&(&k * &t_den / &t_num)));
            let sym_star = to_u128_sat(&isqrt(&(&k * &t_num / &t_den)));
            if mel_star > p.lefts {
                let d = (mel_star - p.lefts) / theta;
                let _ = pool_swap(&mut p, d, 0);
                tr.peg_mel_in = d;
            }
            if sym_star > p.rights {
                let d = (sym_star - p.rights) / theta;
                let _ = pool_swap(&mut p, 0, d);
                tr.peg_sym_in = d;
            }
            s.pools.insert(ms, p);
        }
    }
    // ---- TIP-909 subsidy
    if tips.t909 {
        let halvings = h.saturating_sub(950_000) / 1_000_000;
        let r: u128 = if halvings >= 128 { 0 } else { (1u128 << 20) >> halvings };
        let e = r >> 8;
        let f = if tips.t909a { r - e } else { r / 2 };
        let erg_part = if tips.t909a { e } else { r - f };
        let ms = PoolKey::new(Denom::Mel, Denom::Sym);
        let es = PoolKey::new(Denom::Erg, Denom::Sym);
        let mut p = s.pools[&ms];
        let (mel, _) = pool_swap(&mut p, 0, f);
        s.pools.insert(ms, p);
        s.fee_pool = s.fee_pool.saturating_add(mel);
        let mut q = s.pools[&es];
        let _ = pool_swap(&mut q, 0, erg_part);
        s.pools.insert(es, q);
        tr.subsidy_sym = r;
        tr.subsidy_mel_to_fee_pool = mel;
    }
    // ---- proposer action
    if let Some(a) = action {
        s.fee_mult = next_multiplier(s.fee_mult, a.fee_multiplier_delta, tips.t901);
        let base = s.fee_pool >> 16;
        s.fee_pool -= base;
        let reward = base.saturating_add(s.tips);
        s.tips = 0;
        s.coins.insert(
            CoinID::proposer_reward(BlockHeight(h)),
            CoinDataHeight {
                coin_data: CoinData {
                    covhash: a.reward_dest,
                    value: CoinValue(reward),
                    denom: Denom::Mel,
                    additional_data: Default::default(),
                },
                height: BlockHeight(h),
            },
        );
        tr.reward = Some(reward);
    } else {
        // uncollected tips join the fee pool
        s.fee_pool = s.fee_pool.saturating_add(s.tips);
        s.tips = 0;
    }
    s.counts = recount(&s.coins, tips.t906);
    (s, tr)
}

/// m' = m + trunc(max(m/128, 2 if TIP-901) * d / 128), clamped at 0 from below (never wraps)
pub fn next_multiplier(m: u128, d: i8, t901: bool) -> u128 {
    let mut mv = BigUint::from(m >> 7);
    if t901 && mv < BigUint::from(2u32) {
        mv = BigUint::from(2u32);
    }
    let mag = (mv * BigUint::from(d.unsigned_abs())).div_floor(&BigUint::from(128u32));
    let mag = to_u128_sat(&mag);
    if d >= 0 {
        m.saturating_add(mag)
    } else {
        m.saturating_sub(mag)
    }
}

/// supply of every denomination in a snapshot: coins + canonical pool reserves (+ fee pool and tips for MEL)
pub fn supply(s: &Snap) -> BTreeMap<Denom, BigUint> {
    let mut m: BTreeMap<Denom, BigUint> = BTreeMap::new();
    for c in s.coins.values() {
        *m.entry(c.coin_data.denom).or_insert_with(BigUint::zero) += BigUint::from(c.coin_data.value.0);
    }
    // coin-tree entries under ids that no transaction of the history created (the registry cannot name them) are coins
    // all the same when their value decodes as one: whoever holds the covenant can spend them
    for (_, vhex) in s.unknown_coin_entries.iter() {
        if let Ok(bytes) = hex::decode(vhex) {
            if let Ok(c) = stdcode::deserialize::<melstructs::CoinDataHeight>(&bytes) {
                *m.entry(c.coin_data.denom).or_insert_with(BigUint::zero) += BigUint::from(c.coin_data.value.0);
            }
        }
    }
    for (k, p) in s.pools.iter() {
        // decoded pool keys are slot owners (the canonical key wherever a spelling shares its slot), so the
        // two sides hold k.left() and k.right()
        *m.entry(k.left()).or_insert_with(BigUint::zero) += BigUint::from(p.lefts);
        *m.entry(k.right()).or_insert_with(BigUint::zero) += BigUint::from(p.rights);
    }
    *m.entry(Denom::Mel).or_insert_with(BigUint::zero) += BigUint::from(s.fee_pool) + BigUint::from(s.tips);
    m.remove(&Denom::NewCustom);
    m
}
