//! Run statistics, evidence files, known findings and violations.
use std::collections::{BTreeMap, BTreeSet, HashSet};
use std::path::PathBuf;

use serde::{Deserialize, Serialize};
use serde_json::{json, Value as J};

#[derive(Clone, Debug, Serialize)]
pub struct Violation {
    /// classifier output used to match the known-findings file
    pub signature: String,
    pub detail: String,
}

impl Violation {
    pub fn new(sig: impl Into<String>, detail: impl Into<String>) -> Self {
        Violation { signature: sig.into(), detail: detail.into() }
    }
}

pub type Check = Result<(), Violation>;

#[macro_export]
macro_rules! viol {
    ($sig:expr, $($arg:tt)*) => {
        return Err($crate::evidence::Violation::new($sig, format!($($arg)*)))
    };
}

#[derive(Default, Clone)]
pub struct Stats {
    pub evals: u64,
    pub distinct: HashSet<u64>,
    pub classes: BTreeMap<String, u64>,
    pub samples: Vec<J>,
    pub known_hits: BTreeMap<String, u64>,
    pub excluded: BTreeMap<String, u64>,
    pub frozen: bool,
}

impl Stats {
    pub fn eval(&mut self) {
        if !self.frozen {
            self.evals += 1;
        }
    }
    pub fn evals_n(&mut self, n: u64) {
        if !self.frozen {
            self.evals += n;
        }
    }
    pub fn nontrivial(&mut self, digest: u64) {
        if !self.frozen {
            self.distinct.insert(digest);
        }
    }
    pub fn class(&mut self, c: &str) {
        if !self.frozen {
            *self.classes.entry(c.to_string()).or_insert(0) += 1;
        }
    }
    pub fn class_n(&mut self, c: &str, n: u64) {
        if !self.frozen && n > 0 {
            *self.classes.entry(c.to_string()).or_insert(0) += n;
        }
    }
    pub fn exclude(&mut self, c: &str) {
        if !self.frozen {
            *self.excluded.entry(c.to_string()).or_insert(0) += 1;
        }
    }
    pub fn sample(&mut self, f: impl FnOnce() -> J) {
        if !self.frozen && self.samples.len() < 3 {
            self.samples.push(f());
        }
    }
    pub fn want_sample(&self) -> bool {
        !self.frozen && self.samples.len() < 3
    }
    pub fn merge(&mut self, o: Stats) {
        self.evals += o.evals;
        self.distinct.extend(o.distinct);
        for (k, v) in o.classes {
            *self.classes.entry(k).or_insert(0) += v;
        }
        for (k, v) in o.known_hits {
            *self.known_hits.entry(k).or_insert(0) += v;
        }
        for (k, v) in o.excluded {
            *self.excluded.entry(k).or_insert(0) += v;
        }
        for s in o.samples {
            if self.samples.len() < 5 {
                self.samples.push(s);
            }
        }
    }
}

#[derive(Clone, Debug, Deserialize)]
pub struct KnownFinding {
    pub id: String,
    pub property: String,
    pub status: String,
    #[serde(default)]
    pub commit: Option<String>,
    pub signature: String,
    pub summary: String,
}

pub struct Known {
    pub list: Vec<KnownFinding>,
}

impl Known {
    pub fn load() -> Known {
        let p = verif_root().join("known_findings.json");
        let list = match std::fs::read(&p) {
            Ok(b) => serde_json::from_slice(&b).expect("known_findings.json malformed"),
            Err(_) => vec![],
        };
        Known { list }
    }
    /// A violation is tolerated only if an entry with status "known" for this property has exactly this signature.
    pub fn matches(&self, prop: &str, sig: &str) -> Option<&KnownFinding> {
        self.list
            .iter()
            .find(|k| k.status == "known" && k.property == prop && sig_match(&k.signature, sig))
    }
}

fn sig_match(pattern: &str, sig: &str) -> bool {
    if let Some(p) = pattern.strip_suffix('*') {
        sig.starts_with(p)
    } else {
        pattern == sig
    }
}

pub fn verif_root() -> PathBuf {
    std::env::var("VERIF_ROOT").map(PathBuf::from).unwrap_or_else(|_| PathBuf::from("/verif"))
}

pub struct Report {
    pub property: String,
    pub tier: String,
    pub seed: u64,
    pub stats: Stats,
    pub rule: String,
    pub exhaustive: Option<bool>,
    pub extra: BTreeMap<String, J>,
    pub assumptions: Vec<String>,
    pub violations: Vec<(Violation, PathBuf)>,
    pub wall_s: f64,
}

impl Report {
    pub fn write(&self) {
        let mut coverage = serde_json::Map::new();
        coverage.insert("evaluations".into(), json!(self.stats.evals));
        coverage.insert("distinct_nontrivial".into(), json!(self.stats.distinct.len()));
        coverage.insert("rule".into(), json!(self.rule));
        coverage.insert("samples".into(), J::Array(self.stats.samples.clone()));
        if let Some(e) = self.exhaustive {
            coverage.insert("exhaustive".into(), json!(e));
        }
        coverage.insert("classes".into(), json!(self.stats.classes));
        coverage.insert("excluded".into(), json!(self.stats.excluded));
        coverage.insert("known_finding_hits".into(), json!(self.stats.known_hits));
        for (k, v) in &self.extra {
            coverage.insert(k.clone(), v.clone());
        }
        let ev = json!({
            "property_id": self.property,
            "tier": self.tier,
            "seed": self.seed,
            "level": "exploration",
            "coverage": J::Object(coverage),
            "assumptions": self.assumptions,
            "wall_s": self.wall_s,
            "violations": self.violations.len(),
        });
        let dir = verif_root().join("evidence");
        let _ = std::fs::create_dir_all(&dir);
        let p = dir.join(format!("{}.json", self.property));
        std::fs::write(&p, serde_json::to_vec_pretty(&ev).unwrap()).expect("cannot write evidence");
    }
}

pub fn write_replay(prop: &str, sig: &str, body: &J) -> PathBuf {
    let dir = verif_root().join("replays").join(prop);
    let _ = std::fs::create_dir_all(&dir);
    let bytes = serde_json::to_vec_pretty(body).unwrap();
    let clean: String = sig
        .chars()
        .map(|c| if c.is_ascii_alphanumeric() || c == '-' || c == '_' { c } else { '_' })
        .take(60)
        .collect();
    let name = format!("{}-{:016x}.json", clean, crate::util::h64(&bytes));
    let p = dir.join(name);
    std::fs::write(&p, bytes).expect("cannot write replay");
    p
}

#[allow(dead_code)]
pub fn uniq(v: &[String]) -> Vec<String> {
    let s: BTreeSet<_> = v.iter().cloned().collect();
    s.into_iter().collect()
}
