//! mv — library part: reference models, generators, monitors (shared by the `mv` binary and the fuzz targets).
pub mod alloc;
pub mod evidence;
pub mod fuzzing;
pub mod mon;
pub mod plan;
pub mod refstf;
pub mod refvm;
pub mod runner;
pub mod util;
pub mod vmgen;
pub mod world;
