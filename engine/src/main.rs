//! mv — the verification engine for mel-project/melstf (property-based testing / fuzzing family).

use mv::{alloc, evidence, fuzzing, mon, runner, util};
use std::collections::BTreeMap;
use std::time::Instant;

use evidence::{Known, Report};
use runner::{Ctx, Outcome};

#[global_allocator]
static GLOBAL: alloc::Counting = alloc::Counting;

fn usage() -> ! {
    eprintln!("usage: mv check <ID> [--tier quick|thorough]\n       mv replay <ID> <file>");
    std::process::exit(2)
}

type RunFn = fn(&Ctx) -> (Outcome, String, Option<bool>);
type ReplayFn = fn(&serde_json::Value) -> evidence::Check;

fn table(id: &str) -> Option<(RunFn, ReplayFn, Vec<&'static str>)> {
    Some(match id {
        "C01" => (mon::c01::run as RunFn, mon::c01::replay as ReplayFn, vec!["supply is summed from the decoded coin and pool trees; every tree entry must be explained by an identifier the harness created", "RefSTF's peg/subsidy amounts bound what may be issued at sealing"]),
        "C02" => (mon::c02::run, mon::c02::replay, vec!["RefSTF is the model of what acceptance requires; only the necessary direction is enforced", "batches spending non-first outputs of staking transactions are excluded"]),
        "C03" => (mon::c03::run, mon::c03::replay, vec!["thread interleavings are sampled through pool sizes 1 and 4, not enumerated; per-process hash seeds are sampled through rebuilt HashSets"]),
        "C04" => (mon::c04::run, mon::c04::replay, vec!["heights >= 1 only (at height 0 the previous header is an artefact)", "at most 71 inputs per spend"]),
        "C05" => (mon::c05::run, mon::c05::replay, vec!["covenant weights come from RefVM's independent weight function; stdcode length is trusted", "the fee pool before the reward is read from the same block sealed without an action"]),
        "C06" => (mon::c06::run, mon::c06::replay, vec!["honest blocks are those the implementation itself produced through apply_tx_batch + seal"]),
        "C07" => (mon::c07::run, mon::c07::replay, vec!["novasmt's proof verifier and blake3 are trusted; roots are re-derived in a fresh in-memory store"]),
        "C08" => (mon::c08::run, mon::c08::replay, vec!["the content-addressed store is the in-memory one shared by both lineages; a cold start from disk is outside the crate"]),
        "C09" => (mon::c09::run, mon::c09::replay, vec!["genesis supply per denomination is kept below 2^126", "engine and dependencies are built with overflow-checks and debug-assertions on"]),
        "C13" => (mon::c13::run, mon::c13::replay, vec!["epoch boundaries are reached by fabricating states at boundary heights through the public from_block (the property's quantifier allows this)", "mainnet/testnet below 900 000 (legacy staking rules) are excluded; spends of non-first outputs of staking transactions are unspecified"]),
        "C14" => (mon::c14::run, mon::c14::replay, vec!["stake sets are installed through the genesis configuration (epoch 0); equality at exactly 2/3 is treated as unspecified"]),
        "C17" => (mon::c17::run, mon::c17::replay, vec!["multipliers are installed through the genesis configuration; mainnet/testnet are exercised at height 0 (TIP-901 inactive) only"]),
        "C15" => (mon::c15::run, mon::c15::replay, vec!["the exact settlement formulas are those of DESIGN Appendix A (constants from the code); price_accum is never compared", "for non-canonical pool-key spellings both 'ignored' and 'settled as the canonical pool' are accepted"]),
        "C16" => (mon::c16::run, mon::c16::replay, vec!["pool-tree keys are decoded through the harness's registry of pool names"]),
        "C18" => (mon::c18::run, mon::c18::replay, vec!["melpow's prover and verifier are trusted as the definition of a valid proof; the two hash functions are re-implemented in the harness", "difficulties above 17 are not generated (proof generation time)"]),
        "C19" => (mon::c19::run, mon::c19::replay, vec!["the grandfathered mainnet faucet cannot be generated (only its hash is known)"]),
        "C20" => (mon::c20::run, mon::c20::replay, vec!["coin-tree keys are decoded through the harness's registry of identifiers"]),
        "C10" => (mon::c10::run as RunFn, mon::c10::replay as ReplayFn, vec!["RefVM's reading of the opcode documentation is the specification; where the documentation is silent RefVM follows the pinned implementation (regression oracle)", "programs with reference weight above 50 000 are not executed"]),
        "C11" => (mon::c11::run, mon::c11::replay, vec!["memory is measured as heap bytes allocated by the calling thread", "time is measured as instructions executed and weigh steps, never wall-clock"]),
        "C12" => (mon::c12::run, mon::c12::replay, vec!["opcode byte values are taken from the constants table", "weight comparison is skipped for programs with more than 10 loop instructions (cost belongs to C11)"]),
        _ => return None,
    })
}

fn main() {
    let args: Vec<String> = std::env::args().collect();
    if args.len() < 3 {
        usage();
    }
    util::install_panic_hook();
    let seed: u64 = std::env::var("VERIF_SEED").ok().and_then(|s| s.parse().ok()).unwrap_or(1);
    match args[1].as_str() {
        "check" => {
            let id = args[2].clone();
            let mut tier = std::env::var("VERIF_TIER").unwrap_or_else(|_| "quick".into());
            if let Some(i) = args.iter().position(|a| a == "--tier") {
                tier = args.get(i + 1).cloned().unwrap_or(tier);
            }
            if tier != "quick" && tier != "thorough" {
                tier = "quick".into();
            }
            let (run, replay, assumptions) = table(&id).unwrap_or_else(|| {
                eprintln!("no check for {}", id);
                std::process::exit(2)
            });
            let shards = std::env::var("MV_SHARDS").ok().and_then(|s| s.parse().ok()).unwrap_or(16usize);
            let ctx = Ctx { property: id.clone(), tier: tier.clone(), seed, known: Known::load(), strict: false, shards };
            let t0 = Instant::now();
            // regression tier: saved replays first (strict: no known-finding tolerance unless listed)
            let mut replay_results = vec![];
            let mut violations: Vec<(evidence::Violation, std::path::PathBuf)> = vec![];
            // replays/: written by earlier runs of the checks; regress/: committed cases of repaired defects
            for sub in ["regress", "replays"] {
                let rdir = evidence::verif_root().join(sub).join(&id);
                let rd = match std::fs::read_dir(&rdir) {
                    Ok(rd) => rd,
                    Err(_) => continue,
                };
                let mut files: Vec<_> = rd.filter_map(|e| e.ok()).map(|e| e.path()).filter(|p| p.extension().map(|x| x == "json").unwrap_or(false)).collect();
                files.sort();
                for f in files {
                    if let Ok(b) = std::fs::read(&f) {
                        if let Ok(v) = serde_json::from_slice::<serde_json::Value>(&b) {
                            let case = v["case"].clone();
                            if case.get("abort").is_some() {
                                continue;
                            }
                            let r = std::thread::Builder::new()
                                .name("s201".into())
                                .stack_size(256 << 20)
                                .spawn(move || replay(&case))
                                .unwrap()
                                .join()
                                .expect("replay thread died");
                            replay_results.push(serde_json::json!({"file": f.display().to_string(), "still_fails": r.is_err()}));
                            if let Err(viol) = r {
                                if ctx.known.matches(&id, &viol.signature).is_none() {
                                    violations.push((viol, f.clone()));
                                }
                            }
                        }
                    }
                }
            }
            // pinned cases of known findings: executed on every run; a KNOWN-FINDING line is printed only if still present
            let mut pinned_results = vec![];
            let pdir = evidence::verif_root().join("pinned").join(&id);
            let mut pinned_hits: BTreeMap<String, u64> = BTreeMap::new();
            if let Ok(rd) = std::fs::read_dir(&pdir) {
                let mut files: Vec<_> = rd.filter_map(|e| e.ok()).map(|e| e.path()).filter(|p| p.extension().map(|x| x == "json").unwrap_or(false)).collect();
                files.sort();
                for f in files {
                    if let Ok(b) = std::fs::read(&f) {
                        if let Ok(v) = serde_json::from_slice::<serde_json::Value>(&b) {
                            let case = v["case"].clone();
                            let r = std::thread::Builder::new()
                                .name("s202".into())
                                .stack_size(256 << 20)
                                .spawn(move || replay(&case))
                                .unwrap()
                                .join()
                                .expect("pinned thread died");
                            match r {
                                Ok(()) => pinned_results.push(serde_json::json!({"file": f.display().to_string(), "finding_present": false})),
                                Err(viol) => {
                                    pinned_results.push(serde_json::json!({"file": f.display().to_string(), "finding_present": true, "signature": viol.signature}));
                                    if ctx.known.matches(&id, &viol.signature).is_some() {
                                        *pinned_hits.entry(viol.signature.clone()).or_insert(0) += 1;
                                    } else {
                                        violations.push((viol, f.clone()));
                                    }
                                }
                            }
                        }
                    }
                }
            }
            let (mut out, rule, exhaustive) = match std::panic::catch_unwind(std::panic::AssertUnwindSafe(|| run(&ctx))) {
                Ok(x) => x,
                Err(p) => {
                    let msg = p.downcast_ref::<&str>().map(|s| s.to_string()).or_else(|| p.downcast_ref::<String>().cloned()).unwrap_or_default();
                    println!("INCONCLUSIVE property={} the harness itself panicked: {}", id, msg);
                    std::process::exit(2);
                }
            };
            for (k, v) in pinned_hits {
                *out.stats.known_hits.entry(k).or_insert(0) += v;
            }
            // thorough tier: coverage-guided byte-level campaign with the oracle inside the target
            let mut fuzz_json = serde_json::Value::Null;
            if ctx.thorough() && std::env::var("MV_NO_FUZZ").is_err() {
                let plan: Option<(&str, u64, usize, u64)> = match id.as_str() {
                    "C12" => Some(("fz_decode", 4_000_000, 2048, 180)),
                    "C10" | "C11" => Some(("fz_vm", 2_000_000, 512, 180)),
                    "C09" | "C01" | "C02" => Some(("fz_stf", 200_000, 1024, 240)),
                    _ => None,
                };
                if let Some((target, runs, max_len, secs)) = plan {
                    let fo = fuzzing::run_campaign(target, runs, seed, max_len, secs);
                    out.stats.evals += fo.execs;
                    fuzz_json = fo.json();
                    if let Some(c) = &fo.crash {
                        let viol = evidence::Violation::new(format!("fuzz-crash-{}", target), format!("libFuzzer target {} crashed: {}", target, fo.note));
                        violations.push((viol, c.clone()));
                    } else if !fo.ran {
                        println!("NOTE property={} fuzz campaign {} did not run: {}", id, target, fo.note.chars().take(300).collect::<String>());
                    }
                }
            }
            violations.extend(out.violations);
            let mut extra = BTreeMap::new();
            extra.insert("replays_rerun".to_string(), serde_json::json!(replay_results));
            extra.insert("shards".to_string(), serde_json::json!(shards));
            if !fuzz_json.is_null() {
                extra.insert("fuzz_campaign".to_string(), fuzz_json);
            }
            extra.insert("pinned_known_finding_cases".to_string(), serde_json::json!(pinned_results));
            // known findings: print one line per signature that was actually hit
            for (sig, n) in out.stats.known_hits.iter() {
                if let Some(k) = ctx.known.matches(&id, sig) {
                    println!("KNOWN-FINDING: property={} {} [{}; {} hit(s) this run]", id, k.summary, k.id, n);
                }
            }
            let rep = Report {
                property: id.clone(),
                tier,
                seed,
                stats: out.stats,
                rule,
                exhaustive,
                extra,
                assumptions: assumptions.iter().map(|s| s.to_string()).collect(),
                violations: violations.clone(),
                wall_s: t0.elapsed().as_secs_f64(),
            };
            rep.write();
            println!(
                "property={} evaluations={} distinct_nontrivial={} wall_s={:.1}",
                id,
                rep.stats.evals,
                rep.stats.distinct.len(),
                rep.wall_s
            );
            if violations.is_empty() {
                std::process::exit(0);
            }
            for (v, p) in &violations {
                println!("VIOLATION property={} replay={}", id, p.display());
                println!("  signature: {}", v.signature);
                println!("  detail: {}", v.detail.chars().take(1500).collect::<String>());
            }
            std::process::exit(1);
        }
        "replay" => {
            if args.len() < 4 {
                usage();
            }
            let id = args[2].clone();
            let (_, replay, _) = table(&id).unwrap_or_else(|| usage());
            let b = std::fs::read(&args[3]).expect("cannot read replay file");
            let v: serde_json::Value = match serde_json::from_slice(&b) {
                Ok(v) => v,
                Err(_) => {
                    // a raw libFuzzer artifact: run the target's oracle on the bytes, strictly
                    let bytes = b.clone();
                    let idc = id.clone();
                    let res = std::thread::Builder::new()
                        .name("s200".into())
                        .stack_size(256 << 20)
                        .spawn(move || match idc.as_str() {
                            "C12" => fuzzing::target_decode(&bytes),
                            "C10" | "C11" => fuzzing::target_vm(&bytes),
                            _ => fuzzing::target_stf(&bytes, true),
                        })
                        .unwrap()
                        .join()
                        .expect("replay thread died");
                    match res {
                        Ok(()) => {
                            println!("replay passes: property={} file={}", id, args[3]);
                            std::process::exit(0)
                        }
                        Err(viol) => {
                            println!("VIOLATION property={} replay={}", id, args[3]);
                            println!("  signature: {}", viol.signature);
                            println!("  detail: {}", viol.detail.chars().take(1500).collect::<String>());
                            std::process::exit(1)
                        }
                    }
                }
            };
            let case = v["case"].clone();
            let res = std::thread::Builder::new()
                .name("s200".into())
                .stack_size(256 << 20)
                .spawn(move || replay(&case))
                .unwrap()
                .join()
                .expect("replay thread died");
            match res {
                Ok(()) => {
                    println!("replay passes: property={} file={}", id, args[3]);
                    std::process::exit(0)
                }
                Err(viol) => {
                    println!("VIOLATION property={} replay={}", id, args[3]);
                    println!("  signature: {}", viol.signature);
                    println!("  detail: {}", viol.detail);
                    std::process::exit(1)
                }
            }
        }
        "time-vm" => {
            // diagnostic: where does the time go for a raw fz_vm input (first byte = heap selector)
            let b = std::fs::read(&args[2]).expect("cannot read file");
            let code = &b[1..];
            let ops = mv::refvm::decode(code).expect("does not decode");
            println!("{} instructions, {} bytes; reference weight {}", ops.len(), code.len(), mv::refvm::weight(&ops));
            let real_ops: Vec<_> = ops.iter().map(mv::refvm::to_real_op).collect();
            let cov = melvm::Covenant::from_ops(&real_ops);
            let t = Instant::now();
            let w = cov.weight();
            println!("real weight {} in {:?}", w, t.elapsed());
            let t = Instant::now();
            let r = std::thread::Builder::new().stack_size(256 << 20).spawn(move || cov.debug_execute(&[]).is_some()).unwrap().join();
            println!("real execution -> {:?} in {:?}", r.ok(), t.elapsed());
            let t = Instant::now();
            let mut ex = mv::refvm::RefExec::new(&ops, Default::default());
            let rr = ex.run(10_000_000);
            println!("reference execution -> {} steps, {} in {:?}", ex.steps, match rr { mv::refvm::RunEnd::Budget => "budget", mv::refvm::RunEnd::Fail => "fail", mv::refvm::RunEnd::Done(_) => "done" }, t.elapsed());
            let mut st = evidence::Stats::default();
            let t = Instant::now();
            let r1 = mon::c10::check_program(&ops, &[], &mut st).is_ok();
            println!("C10 check_program ok={} in {:?}", r1, t.elapsed());
            let t = Instant::now();
            let r2 = mon::c11::check_cost(&ops, &mut st).is_ok();
            println!("C11 check_cost ok={} in {:?}", r2, t.elapsed());
        }
        "exec-plan" => {
            // child side of C03's cross-process comparison: run a plan, print what happened as JSON
            if args.len() < 4 {
                usage();
            }
            let b = std::fs::read(&args[3]).expect("cannot read plan");
            let plan: mv::plan::Plan = serde_json::from_slice(&b).expect("plan is not JSON");
            let log = std::thread::Builder::new()
                .name("s211".into())
                .stack_size(256 << 20)
                .spawn(move || mon::c03::record_plan(&plan, 211))
                .unwrap()
                .join()
                .expect("exec thread died");
            println!("{}", serde_json::to_string(&log).unwrap());
        }
        "vm-worker" => {
            std::thread::Builder::new().name("vmw".into()).stack_size(256 << 20).spawn(mon::c11::vm_worker).unwrap().join().ok();
        }
        "legacy-plan" => {
            if args.len() < 4 {
                usage();
            }
            let b = std::fs::read(&args[3]).expect("cannot read plan");
            let plan: mv::plan::Plan = serde_json::from_slice(&b).expect("plan is not JSON");
            let id9 = args[2] == "C09";
            let v = std::thread::Builder::new()
                .name("s212".into())
                .stack_size(256 << 20)
                .spawn(move || if id9 { mon::c09::pre_activation_child(&plan) } else { mon::c07::legacy_child(&plan) })
                .unwrap()
                .join()
                .expect("legacy thread died");
            println!("{}", serde_json::to_string(&v).unwrap());
        }
        "gen-corpus" => {
            // writes small seed inputs for the fuzz targets under <VERIF_ROOT>/corpus/<target>/
            use proptest::strategy::{Strategy, ValueTree};
            use proptest::test_runner::{Config, RngAlgorithm, TestRng, TestRunner};
            let root = evidence::verif_root().join("corpus");
            let mut runner = TestRunner::new_with_rng(Config::default(), TestRng::from_seed(RngAlgorithm::ChaCha, &[7u8; 32]));
            for (target, n) in [("fz_decode", 40usize), ("fz_vm", 60)] {
                let d = root.join(target);
                std::fs::create_dir_all(&d).unwrap();
                for i in 0..n {
                    let ch = mv::vmgen::choices(if i % 3 == 0 { 40 } else { 12 }).new_tree(&mut runner).unwrap().current();
                    let mut bytes = mv::refvm::encode(&mv::vmgen::build_program(&ch)).unwrap();
                    if target == "fz_vm" {
                        bytes.insert(0, i as u8);
                    }
                    std::fs::write(d.join(format!("seed-{:03}", i)), bytes).unwrap();
                }
            }
            let d = root.join("fz_stf");
            std::fs::create_dir_all(&d).unwrap();
            for i in 0..40usize {
                let len = 150 + 20 * i;
                let mut bytes = vec![];
                let mut ctr = 0u64;
                while bytes.len() < len {
                    bytes.extend_from_slice(blake3::hash(format!("stf-seed-{}-{}", i, ctr).as_bytes()).as_bytes());
                    ctr += 1;
                }
                bytes.truncate(len);
                std::fs::write(d.join(format!("seed-{:03}", i)), bytes).unwrap();
            }
            println!("corpus written under {}", root.display());
        }
        _ => usage(),
    }
}
