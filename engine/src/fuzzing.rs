//! Byte-level (libFuzzer) side: decoding of fuzz inputs into the engine's case types, the in-target oracles, and
//! the driver that runs a cargo-fuzz campaign from the thorough tier.
use std::path::PathBuf;
use std::process::Command;

use arbitrary::Unstructured;

use crate::evidence::{verif_root, Check, Stats, Violation};
use crate::plan::{CfgPlan, OutPlan, Plan, StakeCfg, Step, TxPlan};
use crate::refvm::{self, RVal};

fn tx(u: &mut Unstructured) -> arbitrary::Result<TxPlan> {
    let n_in = 1 + u.int_in_range(0..=2)? as usize;
    let n_out = 1 + u.int_in_range(0..=3)? as usize;
    Ok(TxPlan {
        kind: u.arbitrary()?,
        ins: (0..n_in).map(|_| u.arbitrary()).collect::<arbitrary::Result<Vec<u16>>>()?,
        outs: (0..n_out)
            .map(|_| Ok(OutPlan { denom: u.arbitrary()?, weight: u.arbitrary()?, dest: u.arbitrary()?, adata: u.arbitrary()? }))
            .collect::<arbitrary::Result<Vec<_>>>()?,
        fee: u.arbitrary()?,
        data: u.arbitrary()?,
        pool: u.arbitrary()?,
        spell: u.arbitrary()?,
        amount: u.arbitrary()?,
        mutation: u.arbitrary()?,
        mparam: u.arbitrary()?,
    })
}

/// Hand-written decoder from fuzz bytes to a history plan (derive_arbitrary is not available offline).
pub fn plan_from_bytes(data: &[u8]) -> Option<Plan> {
    let mut u = Unstructured::new(data);
    let r: arbitrary::Result<Plan> = (|| {
        let n_st = u.int_in_range(0..=2)? as usize;
        let cfg = CfgPlan {
            net: u.arbitrary()?,
            denom: u.arbitrary()?,
            val: u.arbitrary()?,
            cov: u.arbitrary()?,
            fee_pool: u.arbitrary()?,
            fee_mult: u.arbitrary()?,
            stakes: (0..n_st)
                .map(|_| Ok(StakeCfg { key: u.arbitrary()?, start: u.arbitrary()?, len: u.arbitrary()?, syms: u.arbitrary()? }))
                .collect::<arbitrary::Result<Vec<_>>>()?,
        };
        let mut steps = vec![];
        while !u.is_empty() && steps.len() < 14 {
            let s = match u.int_in_range(0..=11)? {
                0..=5 => {
                    let n = 1 + u.int_in_range(0..=4)? as usize;
                    let txs = (0..n).map(|_| tx(&mut u)).collect::<arbitrary::Result<Vec<_>>>()?;
                    Step::Batch(txs, if u.arbitrary()? { u.arbitrary()? } else { 0 })
                }
                6..=7 => Step::Seal(if u.arbitrary()? { Some((u.arbitrary()?, u.arbitrary()?)) } else { None }),
                8 => Step::Restart,
                9 => Step::Empty(u.int_in_range(0..=2)?),
                10 => {
                    let n = 1 + u.int_in_range(0..=2)? as usize;
                    Step::Admit((0..n).map(|_| tx(&mut u)).collect::<arbitrary::Result<Vec<_>>>()?)
                }
                _ => Step::Include(1 + u.int_in_range(0..=2)?),
            };
            steps.push(s);
        }
        Ok(Plan { cfg, steps })
    })();
    r.ok()
}

/// fz_decode: the C12 oracle on raw bytes.
pub fn target_decode(data: &[u8]) -> Check {
    let mut st = Stats::default();
    crate::mon::c12::check_bytes(data, &mut st, true)
}

/// fz_vm: first byte selects an initial heap; the rest, if it decodes, is executed differentially (C10) and
/// stepped against its weight (C11).
pub fn target_vm(data: &[u8]) -> Check {
    if data.is_empty() {
        return Ok(());
    }
    let (sel, code) = (data[0], &data[1..]);
    let ops = match refvm::decode(code) {
        Ok(o) => o,
        Err(_) => return Ok(()),
    };
    let heap: Vec<RVal> = match sel % 4 {
        0 => vec![],
        1 => vec![refvm::int_u128(sel as u128), RVal::Bytes(vec![sel; 32])],
        2 => vec![RVal::Vec(vec![refvm::int_u128(1), RVal::Bytes(vec![2, 3]), RVal::Vec(vec![])]), refvm::int_u128(65535)],
        _ => vec![RVal::Bytes(vec![]), RVal::Vec(vec![RVal::Vec(vec![refvm::int_u128(7)])]), refvm::int_u128(0), refvm::int_u128(1)],
    };
    let mut st = Stats::default();
    crate::mon::c10::check_program(&ops, &heap, &mut st)?;
    crate::mon::c11::check_cost(&ops, &mut st)
}

/// fz_stf: bytes -> plan, run under the panic monitor (C09), the UTXO monitor (C02) and the conservation
/// monitor (C01). Known findings are tolerated unless `strict`.
pub fn target_stf(data: &[u8], strict: bool) -> Check {
    let p = match plan_from_bytes(data) {
        Some(p) => p,
        None => return Ok(()),
    };
    let mut st = Stats::default();
    let prof = crate::mon::c09::profile();
    let r = crate::plan::run_plan(&p, &prof, &mut crate::mon::c09::C09::default(), &mut st, 250)
        .and_then(|_| crate::plan::run_plan(&p, &prof, &mut crate::mon::c02::C02::default(), &mut st, 250))
        .and_then(|_| crate::plan::run_plan(&p, &prof, &mut crate::mon::c01::C01::default(), &mut st, 250));
    match r {
        Err(v) if !strict => {
            let known = crate::evidence::Known::load();
            if ["C09", "C02", "C01"].iter().any(|id| known.matches(id, &v.signature).is_some()) {
                Ok(())
            } else {
                Err(Violation::new(v.signature, format!("{} :: plan {}", v.detail, serde_json::to_string(&p).unwrap_or_default())))
            }
        }
        other => other,
    }
}

pub struct FuzzOutcome {
    pub target: String,
    pub ran: bool,
    pub execs: u64,
    pub corpus_files: usize,
    pub crash: Option<PathBuf>,
    pub note: String,
    pub wall_s: f64,
}

impl FuzzOutcome {
    pub fn json(&self) -> serde_json::Value {
        serde_json::json!({
            "engine": "cargo-fuzz / libFuzzer", "target": self.target, "ran": self.ran, "executions": self.execs,
            "corpus_files_after": self.corpus_files, "crash_artifact": self.crash.as_ref().map(|p| p.display().to_string()),
            "note": self.note, "wall_s": self.wall_s,
        })
    }
}

/// Builds the target with `cargo +nightly fuzz build` and runs `jobs` independent libFuzzer processes, each from a
/// fresh copy of the committed seed corpus, for `runs` executions in total or `max_secs` seconds, whichever comes
/// first. A campaign that cannot be built or started is reported as not run (never as a violation).
pub fn run_campaign(target: &str, runs: u64, seed: u64, max_len: usize, max_secs: u64) -> FuzzOutcome {
    let t0 = std::time::Instant::now();
    let jobs: u64 = std::env::var("MV_FUZZ_JOBS").ok().and_then(|s| s.parse().ok()).unwrap_or(8);
    let root = verif_root();
    let fuzz_dir = root.join("fuzz");
    let mut out = FuzzOutcome { target: target.into(), ran: false, execs: 0, corpus_files: 0, crash: None, note: String::new(), wall_s: 0.0 };
    let build = Command::new("cargo")
        .current_dir(&fuzz_dir)
        .env("CARGO_NET_OFFLINE", "true")
        .env("RUSTFLAGS", "--cfg melstf_verif -Aunexpected_cfgs")
        .args(["+nightly", "fuzz", "build", "--fuzz-dir"])
        .arg(&fuzz_dir)
        // no AddressSanitizer: the oracles are semantic, the code is safe Rust, and ASan's shadow memory and
        // quarantine turned the targets' large short-lived allocations into out-of-memory stops
        .args(["-s", "none"])
        .arg(target)
        .output();
    match build {
        Ok(o) if o.status.success() => {}
        Ok(o) => {
            out.note = format!("fuzz build failed: {}", String::from_utf8_lossy(&o.stderr).lines().rev().take(5).collect::<Vec<_>>().join(" / "));
            out.wall_s = t0.elapsed().as_secs_f64();
            return out;
        }
        Err(e) => {
            out.note = format!("could not start cargo fuzz: {}", e);
            return out;
        }
    }
    let bin = fuzz_dir.join("target").join("x86_64-unknown-linux-gnu").join("release").join(target);
    let arts = fuzz_dir.join("artifacts").join(target);
    let _ = std::fs::remove_dir_all(&arts);
    let _ = std::fs::create_dir_all(&arts);
    let mut children = vec![];
    for j in 0..jobs {
        let work = fuzz_dir.join("corpus-work").join(format!("{}-{}", target, j));
        let _ = std::fs::remove_dir_all(&work);
        let _ = std::fs::create_dir_all(&work);
        if let Ok(rd) = std::fs::read_dir(root.join("corpus").join(target)) {
            for e in rd.flatten() {
                let _ = std::fs::copy(e.path(), work.join(e.file_name()));
            }
        }
        let child = Command::new(&bin)
            .current_dir(&fuzz_dir)
            .env("VERIF_ROOT", &root)
            .arg(&work)
            .arg(format!("-runs={}", (runs / jobs).max(1)))
            .arg(format!("-max_total_time={}", max_secs))
            .arg(format!("-seed={}", seed.wrapping_mul(1000).wrapping_add(j + 1)))
            .arg(format!("-max_len={}", max_len))
            .args(["-len_control=0", "-timeout=120", "-rss_limit_mb=6000", "-print_final_stats=1"])
            .arg(format!("-artifact_prefix={}/j{}-", arts.display(), j))
            .stdout(std::process::Stdio::null())
            .stderr(match std::fs::File::create(arts.join(format!("j{}.log", j))) {
                Ok(f) => std::process::Stdio::from(f),
                Err(_) => std::process::Stdio::null(),
            })
            .spawn();
        match child {
            Ok(c) => children.push((work, c, arts.join(format!("j{}.log", j)))),
            Err(e) => out.note = format!("could not start {}: {}", bin.display(), e),
        }
    }
    let mut all_ok = !children.is_empty();
    let mut notes = vec![];
    for (work, mut c, logf) in children {
        match c.wait() {
            Ok(status) => {
                let stderr = std::fs::read_to_string(&logf).unwrap_or_default();
                struct O {
                    status: std::process::ExitStatus,
                }
                let o = O { status };
                for line in stderr.lines() {
                    if let Some(v) = line.strip_prefix("stat::number_of_executed_units:") {
                        out.execs += v.trim().parse::<u64>().unwrap_or(0);
                    }
                }
                out.corpus_files += std::fs::read_dir(&work).map(|r| r.count()).unwrap_or(0);
                if !o.status.success() {
                    all_ok = false;
                    notes.extend(stderr.lines().filter(|l| l.contains("VIOLATION") || l.contains("panicked") || l.contains("ERROR")).take(3).map(|s| s.chars().take(400).collect::<String>()));
                }
            }
            Err(e) => {
                all_ok = false;
                notes.push(e.to_string());
            }
        }
    }
    out.wall_s = t0.elapsed().as_secs_f64();
    let crash = std::fs::read_dir(&arts)
        .ok()
        .and_then(|r| r.flatten().map(|e| e.path()).find(|p| p.file_name().map_or(false, |n| n.to_string_lossy().contains("crash-"))));
    if all_ok {
        out.ran = true;
    } else if let Some(c) = crash {
        out.ran = true;
        let dest_dir = root.join("replays").join("fuzz").join(target);
        let _ = std::fs::create_dir_all(&dest_dir);
        let dest = dest_dir.join(c.file_name().unwrap());
        let _ = std::fs::copy(&c, &dest);
        out.crash = Some(dest);
        out.note = notes.join(" | ");
    } else {
        out.note = format!("campaign did not run to completion: {}", notes.join(" | "));
    }
    out
}
