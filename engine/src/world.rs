//! The world: real state + decoded snapshots + wallet + registry of every identifier the harness created.
use std::collections::{BTreeMap, HashMap};

use melstf::{GenesisConfig, SealedState, UnsealedState, VerifView};
use melstructs::{
    Address, BlockHeight, CoinData, CoinDataHeight, CoinID, CoinValue, Denom, Header, NetID, PoolKey, PoolState,
    ProposerAction, StakeDoc, Transaction, TxHash,
};
use novasmt::{Database, InMemoryCas};
use stdcode::StdcodeSerializeExt;
use tmelcrypt::{Ed25519PK, Ed25519SK, HashVal};

use crate::util::PanicInfo;

pub type Db = Database<InMemoryCas>;
pub type Unsealed = UnsealedState<InMemoryCas>;
pub type Sealed = SealedState<InMemoryCas>;
pub type View = VerifView<InMemoryCas>;

pub const NKEYS: usize = 6;

pub fn nets() -> [NetID; 9] {
    [
        NetID::Custom02,
        NetID::Custom08,
        NetID::Testnet,
        NetID::Mainnet,
        NetID::Custom03,
        NetID::Custom04,
        NetID::Custom05,
        NetID::Custom06,
        NetID::Custom07,
    ]
}

/// How the wallet can unlock a coin.
#[derive(Clone, Debug, PartialEq, Eq, serde::Serialize, serde::Deserialize)]
pub enum CovSpec {
    True,
    SigLegacy(usize),
    SigNew(usize),
    /// spendable only while the previous block's height is below the bound ("expiring offer")
    HeightBelow(u64),
    /// spendable only once the previous block's height exceeds the bound (time lock)
    HeightAbove(u64),
}

pub const HEIGHT_BOUNDS: [u64; 5] = [1, 2, 3, 5, 8];

pub struct Keys {
    pub keys: Vec<(Ed25519PK, Ed25519SK)>,
}

impl Keys {
    pub fn new() -> Self {
        Keys { keys: (0..NKEYS).map(crate::util::key).collect() }
    }
}

thread_local! {
    static KEYS: Keys = Keys::new();
}

pub fn pk(i: usize) -> Ed25519PK {
    KEYS.with(|k| k.keys[i % NKEYS].0)
}
pub fn sk(i: usize) -> Ed25519SK {
    KEYS.with(|k| k.keys[i % NKEYS].1)
}

impl CovSpec {
    pub fn covenant(&self) -> melvm::Covenant {
        match self {
            CovSpec::True => melvm::Covenant::always_true(),
            CovSpec::SigLegacy(k) => melvm::Covenant::std_ed25519_pk_legacy(pk(*k)),
            CovSpec::SigNew(k) => melvm::Covenant::std_ed25519_pk_new(pk(*k)),
            CovSpec::HeightBelow(t) | CovSpec::HeightAbove(t) => {
                use melvm::opcode::OpCode as O;
                // header = heap[10]; its height is element 2; `lt` is top < second
                melvm::Covenant::from_ops(&[
                    O::PushI(2u32.into()),
                    O::LoadImm(10),
                    O::VRef,
                    O::PushI((*t).into()),
                    if matches!(self, CovSpec::HeightBelow(_)) { O::Gt } else { O::Lt },
                ])
            }
        }
    }
    pub fn bytes(&self) -> Vec<u8> {
        self.covenant().to_bytes().to_vec()
    }
    pub fn hash(&self) -> Address {
        self.covenant().hash()
    }
    pub fn from_sel(i: u8) -> CovSpec {
        match i % 8 {
            0 | 1 | 2 => CovSpec::True,
            3 | 4 => CovSpec::SigLegacy((i / 8) as usize % NKEYS),
            _ => CovSpec::SigNew((i / 8) as usize % NKEYS),
        }
    }
    /// like from_sel, but one destination in eight is locked by a covenant that reads the previous header
    pub fn from_sel_with_header(i: u8) -> CovSpec {
        if i % 8 == 2 {
            let t = HEIGHT_BOUNDS[(i / 8) as usize % HEIGHT_BOUNDS.len()];
            if (i / 64) % 2 == 0 {
                CovSpec::HeightBelow(t)
            } else {
                CovSpec::HeightAbove(t)
            }
        } else {
            CovSpec::from_sel(i)
        }
    }
}

#[derive(Clone, Debug)]
pub struct WCoin {
    pub id: CoinID,
    pub cdh: CoinDataHeight,
    pub cov: CovSpec,
}

/// Decoded snapshot of a state (also the state type of the reference model).
#[derive(Clone, Debug)]
pub struct Snap {
    pub net: NetID,
    pub height: u64,
    pub fee_pool: u128,
    pub tips: u128,
    pub fee_mult: u128,
    pub dosc_speed: u128,
    pub coins: BTreeMap<CoinID, CoinDataHeight>,
    pub counts: BTreeMap<Address, u64>,
    /// raw coin-tree entries the registry cannot explain
    pub unknown_coin_entries: Vec<(String, String)>,
    pub pools: BTreeMap<PoolKey, PoolState>,
    pub unknown_pool_entries: usize,
    pub stakes: BTreeMap<TxHash, StakeDoc>,
    pub txs: Vec<Transaction>,
    pub coins_root: [u8; 32],
    pub pools_root: [u8; 32],
    pub history_root: [u8; 32],
}

/// Everything the harness has ever named, so that hashed tree keys can be decoded.
#[derive(Default, Clone)]
pub struct Registry {
    pub coin_ids: HashMap<[u8; 32], CoinID>,
    pub count_keys: HashMap<[u8; 32], Address>,
    pub pool_keys: HashMap<[u8; 32], PoolKey>,
}

impl Registry {
    pub fn coin(&mut self, id: CoinID) {
        self.coin_ids.insert(tmelcrypt::hash_single(&id.stdcode()).0, id);
    }
    pub fn covhash(&mut self, a: Address) {
        self.count_keys.insert(tmelcrypt::hash_keyed(b"coin_count", a.0).0, a);
    }
    /// Registers the *owner* of the tree slot a spelling addresses: the canonical key when the spelling
    /// serialises to the same bytes (reversed keys containing MEL do), otherwise the spelling itself.
    pub fn pool(&mut self, k: PoolKey) {
        let owner = slot_owner(k);
        self.pool_keys.insert(tmelcrypt::hash_single(&stdcode::serialize(&owner).unwrap()).0, owner);
    }
    fn coin_denoms(&mut self, _k: PoolKey) {}
    pub fn tx(&mut self, tx: &Transaction) {
        let h = tx.hash_nosigs();
        let n = tx.outputs.len().max(2).min(256);
        for i in 0..n {
            self.coin(CoinID::new(h, i as u8));
        }
        for o in tx.outputs.iter() {
            self.covhash(o.covhash);
        }
        self.coin(faucet_marker(h));
        if let Some(k) = PoolKey::from_bytes(&tx.data) {
            self.pool(k);
            if k.left() != k.right() {
                self.pool(PoolKey::new(k.left(), k.right()));
            }
            self.coin_denoms(k);
        }
    }
}

pub fn slot_owner(k: PoolKey) -> PoolKey {
    if k.left() != k.right() {
        let c = PoolKey::new(k.left(), k.right());
        if c.to_bytes() == k.to_bytes() {
            return c;
        }
    }
    k
}

pub fn faucet_marker(txhash: TxHash) -> CoinID {
    CoinID { txhash: tmelcrypt::hash_keyed(b"fdp", txhash.0).into(), index: 0 }
}

pub fn decode_view(v: &View, reg: &Registry) -> Snap {
    let mut coins = BTreeMap::new();
    let mut counts = BTreeMap::new();
    let mut unknown = vec![];
    for (k, val) in v.coins.iter() {
        if let Some(id) = reg.coin_ids.get(&k) {
            match stdcode::deserialize::<CoinDataHeight>(&val) {
                Ok(cdh) => {
                    coins.insert(*id, cdh);
                }
                Err(_) => unknown.push((hex::encode(k), hex::encode(&val))),
            }
        } else if let Some(a) = reg.count_keys.get(&k) {
            match stdcode::deserialize::<u64>(&val) {
                Ok(n) => {
                    counts.insert(*a, n);
                }
                Err(_) => unknown.push((hex::encode(k), hex::encode(&val))),
            }
        } else {
            unknown.push((hex::encode(k), hex::encode(&val)));
        }
    }
    let mut pools = BTreeMap::new();
    let mut unknown_pools = 0;
    for (k, val) in v.pools.iter() {
        match (reg.pool_keys.get(&k), stdcode::deserialize::<PoolState>(&val)) {
            (Some(pk), Ok(ps)) => {
                pools.insert(*pk, ps);
            }
            _ => unknown_pools += 1,
        }
    }
    Snap {
        net: v.network,
        height: v.height.0,
        fee_pool: v.fee_pool.0,
        tips: v.tips.0,
        fee_mult: v.fee_multiplier,
        dosc_speed: v.dosc_speed,
        coins,
        counts,
        unknown_coin_entries: unknown,
        pools,
        unknown_pool_entries: unknown_pools,
        stakes: v.stakes.iter().map(|(k, d)| (*k, *d)).collect(),
        txs: v.transactions.clone(),
        coins_root: v.coins.root_hash(),
        pools_root: v.pools.root_hash(),
        history_root: v.history.root_hash(),
    }
}

/// Component-wise equality of two raw views (used for "rejection is a no-op").
pub fn views_equal(a: &View, b: &View) -> Result<(), String> {
    macro_rules! cmp {
        ($f:expr, $name:expr) => {
            if $f(a) != $f(b) {
                return Err(format!("{} differs", $name));
            }
        };
    }
    cmp!(|v: &View| v.network, "network");
    cmp!(|v: &View| v.height, "height");
    cmp!(|v: &View| v.coins.root_hash(), "coins root");
    cmp!(|v: &View| v.pools.root_hash(), "pools root");
    cmp!(|v: &View| v.history.root_hash(), "history root");
    cmp!(|v: &View| v.fee_pool, "fee_pool");
    cmp!(|v: &View| v.fee_multiplier, "fee_multiplier");
    cmp!(|v: &View| v.tips, "tips");
    cmp!(|v: &View| v.dosc_speed, "dosc_speed");
    cmp!(|v: &View| v.transactions.clone(), "transaction list");
    let sa: BTreeMap<TxHash, Vec<u8>> = a.stakes.iter().map(|(k, d)| (*k, d.stdcode())).collect();
    let sb: BTreeMap<TxHash, Vec<u8>> = b.stakes.iter().map(|(k, d)| (*k, d.stdcode())).collect();
    if sa != sb {
        return Err("stake set differs".into());
    }
    Ok(())
}

#[derive(Clone, Debug)]
pub enum Outcome<T> {
    Ok(T),
    Rejected(String),
    Panicked(PanicInfo),
}

pub struct GenesisSpec {
    pub net: NetID,
    pub init: CoinData,
    pub init_cov: CovSpec,
    pub fee_pool: u128,
    pub fee_mult: u128,
    pub stakes: Vec<(TxHash, StakeDoc)>,
}

pub struct World {
    pub db: Db,
    pub net: NetID,
    pub cur: Unsealed,
    pub last_sealed: Option<Sealed>,
    /// headers of sealed blocks, by height
    pub headers: BTreeMap<u64, Header>,
    pub wallet: Vec<WCoin>,
    pub graveyard: Vec<CoinID>,
    pub reg: Registry,
    pub pool: std::rc::Rc<rayon::ThreadPool>,
    /// total value handed out by faucets / genesis per denomination (supply cap)
    pub issued: HashMap<Denom, u128>,
    pub custom_denoms: Vec<Denom>,
    pub staked_txs: Vec<(TxHash, StakeDoc, CovSpec)>,
    pub faucets_seen: Vec<Transaction>,
    pub blocks_sealed: u64,
    /// transactions that passed an admission check on a scratch copy of the state and wait for inclusion
    pub mempool: Vec<Transaction>,
    /// human-readable log of what was executed (for evidence samples)
    pub trace: Vec<String>,
    /// a block builder that keeps working on the very state object a rejected call was made on (rejection is
    /// specified to leave it untouched), instead of on a copy taken before the call
    pub keep_rejected_object: bool,
}

/// One 2-thread rayon pool per shard thread, reused by every World created on that thread.
pub fn shard_pool(shard: usize) -> std::rc::Rc<rayon::ThreadPool> {
    thread_local! {
        static POOL: std::cell::RefCell<Option<(usize, std::rc::Rc<rayon::ThreadPool>)>> = const { std::cell::RefCell::new(None) };
    }
    POOL.with(|p| {
        let mut p = p.borrow_mut();
        match &*p {
            Some((s, pool)) if *s == shard => pool.clone(),
            _ => {
                let pool = std::rc::Rc::new(mk_pool(shard, 2));
                *p = Some((shard, pool.clone()));
                pool
            }
        }
    })
}

pub fn mk_pool(shard: usize, threads: usize) -> rayon::ThreadPool {
    rayon::ThreadPoolBuilder::new()
        .num_threads(threads)
        .thread_name(move |i| format!("s{}-r{}", shard, i))
        .stack_size(64 << 20)
        .build()
        .expect("rayon pool")
}

impl World {
    pub fn new(g: GenesisSpec, shard: usize) -> World {
        let db = Database::new(InMemoryCas::default());
        let cfg = GenesisConfig {
            network: g.net,
            init_coindata: g.init.clone(),
            stakes: g.stakes.iter().cloned().collect(),
            init_fee_pool: CoinValue(g.fee_pool),
            init_fee_multiplier: g.fee_mult,
        };
        let cur = cfg.realize(&db);
        let mut reg = Registry::default();
        reg.coin(CoinID::zero_zero());
        reg.covhash(g.init.covhash);
        for spec in all_specs() {
            reg.covhash(spec.hash());
        }
        reg.covhash(Address(HashVal::default()));
        reg.pool(PoolKey::new(Denom::Mel, Denom::Sym));
        reg.pool(PoolKey::new(Denom::Mel, Denom::Erg));
        reg.pool(PoolKey::new(Denom::Erg, Denom::Sym));
        let mut issued = HashMap::new();
        issued.insert(g.init.denom, g.init.value.0);
        let wallet = vec![WCoin {
            id: CoinID::zero_zero(),
            cdh: CoinDataHeight { coin_data: g.init.clone(), height: BlockHeight(0) },
            cov: g.init_cov.clone(),
        }];
        World {
            db,
            net: g.net,
            cur,
            last_sealed: None,
            headers: BTreeMap::new(),
            wallet,
            graveyard: vec![],
            reg,
            pool: shard_pool(shard),
            issued,
            custom_denoms: vec![],
            staked_txs: vec![],
            faucets_seen: vec![],
            blocks_sealed: 0,
            mempool: vec![],
            trace: vec![],
            keep_rejected_object: false,
        }
    }

    pub fn height(&self) -> u64 {
        self.cur.verif_view().height.0
    }

    pub fn view(&self) -> View {
        self.cur.verif_view()
    }

    pub fn snap(&self) -> Snap {
        decode_view(&self.cur.verif_view(), &self.reg)
    }

    /// header of block `h` (trusted input to the reference model: hashes feed covenants and puzzles)
    pub fn header_at(&self, h: u64) -> Option<Header> {
        self.headers.get(&h).copied()
    }

    pub fn apply_batch(&mut self, txs: &[Transaction]) -> Outcome<()> {
        for tx in txs {
            self.reg.tx(tx);
        }
        let mut trial = self.cur.clone();
        let pool = &self.pool;
        let r = crate::util::catch(|| pool.install(|| trial.apply_tx_batch(txs)));
        match r {
            Ok(Ok(())) => {
                self.cur = trial;
                Outcome::Ok(())
            }
            Ok(Err(e)) => {
                // `trial` is what the rejected call left behind; callers compare it with the original
                Outcome::Rejected(format!("{:?}", e))
            }
            Err(p) => Outcome::Panicked(p),
        }
    }

    /// Like apply_batch but hands back the state object the rejected call left behind.
    pub fn apply_batch_keep(&mut self, txs: &[Transaction]) -> (Outcome<()>, Option<View>) {
        for tx in txs {
            self.reg.tx(tx);
        }
        let mut trial = self.cur.clone();
        let pool = &self.pool;
        let r = crate::util::catch(|| {
            let r = pool.install(|| trial.apply_tx_batch(txs));
            (r, trial)
        });
        match r {
            Ok((Ok(()), t)) => {
                self.cur = t;
                (Outcome::Ok(()), None)
            }
            Ok((Err(e), t)) => {
                let v = t.verif_view();
                if self.keep_rejected_object {
                    self.cur = t;
                }
                (Outcome::Rejected(format!("{:?}", e)), Some(v))
            }
            Err(p) => (Outcome::Panicked(p), None),
        }
    }

    /// Seals the current block and opens the next one. Returns the sealed state.
    pub fn seal(&mut self, action: Option<ProposerAction>) -> Outcome<Sealed> {
        let h = self.height();
        self.reg.coin(CoinID::proposer_reward(BlockHeight(h)));
        if let Some(a) = action {
            self.reg.covhash(a.reward_dest);
        }
        let cur = self.cur.clone();
        let pool = &self.pool;
        let r = crate::util::catch(|| {
            pool.install(|| {
                let s = cur.seal(action);
                let hd = s.header();
                let n = s.next_unsealed();
                (s, hd, n)
            })
        });
        match r {
            Ok((s, hd, n)) => {
                self.headers.insert(h, hd);
                self.cur = n;
                self.last_sealed = Some(s.clone());
                self.blocks_sealed += 1;
                Outcome::Ok(s)
            }
            Err(p) => Outcome::Panicked(p),
        }
    }

    /// Refresh wallet coins from a sealed state (pool operations rewrite coins in place).
    pub fn refresh_wallet(&mut self, s: &Sealed) {
        let mut keep = vec![];
        for mut c in std::mem::take(&mut self.wallet) {
            match s.coin(c.id) {
                Some(cdh) => {
                    c.cdh = cdh;
                    keep.push(c)
                }
                None => self.graveyard.push(c.id),
            }
        }
        self.wallet = keep;
        if self.graveyard.len() > 64 {
            let n = self.graveyard.len() - 64;
            self.graveyard.drain(0..n);
        }
    }

    pub fn spec_for(&self, a: Address) -> Option<CovSpec> {
        all_specs().into_iter().find(|s| s.hash() == a)
    }
}

pub fn all_specs() -> Vec<CovSpec> {
    thread_local! {
        static SPECS: Vec<CovSpec> = {
            let mut v = vec![CovSpec::True];
            for k in 0..NKEYS {
                v.push(CovSpec::SigLegacy(k));
                v.push(CovSpec::SigNew(k));
            }
            for t in HEIGHT_BOUNDS {
                v.push(CovSpec::HeightBelow(t));
                v.push(CovSpec::HeightAbove(t));
            }
            v
        };
    }
    SPECS.with(|s| s.clone())
}

pub fn spec_hash_map() -> HashMap<Address, CovSpec> {
    thread_local! {
        static M: HashMap<Address, CovSpec> = all_specs().into_iter().map(|s| (s.hash(), s)).collect();
    }
    M.with(|m| m.clone())
}
