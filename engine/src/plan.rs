//! History plans (pure data drawn from proptest strategies), their interpretation into concrete
//! transactions, and the driver that runs a plan against the implementation with a monitor attached.
use std::collections::BTreeMap;

use melstructs::{
    Address, BlockHeight, CoinData, CoinDataHeight, CoinID, CoinValue, Denom, NetID, PoolKey, ProposerAction,
    StakeDoc, Transaction, TxHash, TxKind,
};
use proptest::prelude::*;
use serde::{Deserialize, Serialize};
use tmelcrypt::HashVal;

use crate::evidence::{Check, Stats};
use crate::refstf::{self, RefCtx, SealTrace, Verdict, MAX_COINVAL};
use crate::util::{sel, PanicInfo};
use crate::world::{
    decode_view, nets, pk, sk, CovSpec, GenesisSpec, Outcome, Sealed, Snap, View, WCoin, World, NKEYS,
};

// ---------------------------------------------------------------------------------------------
// plan types

#[derive(Clone, Debug, Serialize, Deserialize)]
pub struct Plan {
    pub cfg: CfgPlan,
    pub steps: Vec<Step>,
}

#[derive(Clone, Debug, Serialize, Deserialize)]
pub struct CfgPlan {
    pub net: u8,
    pub denom: u8,
    pub val: u8,
    pub cov: u8,
    pub fee_pool: u8,
    pub fee_mult: u8,
    pub stakes: Vec<StakeCfg>,
}

#[derive(Clone, Debug, Serialize, Deserialize)]
pub struct StakeCfg {
    pub key: u8,
    pub start: u8,
    pub len: u8,
    pub syms: u8,
}

#[derive(Clone, Debug, Serialize, Deserialize)]
pub enum Step {
    /// transactions, shuffle seed (0 = as planned)
    Batch(Vec<TxPlan>, u32),
    /// proposer action: (delta, reward destination selector)
    Seal(Option<(i8, u8)>),
    Restart,
    Empty(u8),
    /// jump to just below a boundary height (fabricated state through the public from_block)
    Teleport(u8),
    /// jump to this height (taken modulo 2 000 000; forward only, never across the TIP-906 barrier)
    TeleportTo(u32),
    /// admission check: validate transactions on a scratch copy of the state and keep the accepted ones for later
    Admit(Vec<TxPlan>),
    /// include up to n waiting transactions as one batch
    Include(u8),
}

#[derive(Clone, Debug, Serialize, Deserialize)]
pub struct TxPlan {
    pub kind: u8,
    pub ins: Vec<u16>,
    pub outs: Vec<OutPlan>,
    pub fee: u8,
    pub data: u8,
    pub pool: u16,
    pub spell: u8,
    pub amount: u8,
    pub mutation: u8,
    pub mparam: u16,
}

#[derive(Clone, Debug, Serialize, Deserialize)]
pub struct OutPlan {
    pub denom: u8,
    pub weight: u8,
    pub dest: u8,
    pub adata: u8,
}

/// Per-property tuning of how plan bytes are interpreted.
#[derive(Clone, Debug)]
pub struct Profile {
    /// weights for [Custom02, Custom08, Testnet, Mainnet, Custom03..07]
    pub net_w: [u32; 9],
    /// weights for [Normal, Faucet, Swap, Deposit, Withdraw, Stake, NewToken, DoscMint, ReplayedFaucet]
    pub kind_w: [u32; 9],
    /// probability (x/256) that a transaction is adversarially mutated
    pub p_mut: u32,
    pub max_steps: usize,
    pub max_txs: usize,
    /// probability (x/256) of a non-canonical pool spelling on pool requests
    pub p_odd_spelling: u32,
    /// allow zero-valued pool requests, oversized sums etc (C09's adversarial mode)
    pub hostile: bool,
    /// force MEL genesis coin (so that traffic is possible on mainnet)
    pub mel_genesis: bool,
    /// avoid shapes that trigger known findings (counted by the monitors)
    pub mainnet_like_legacy: bool,
    /// after a Restart step the driver continues on the restarted lineage (false: on the original; C08 shadows)
    pub restart_replaces: bool,
    /// weight (x/256 of Step draws) of teleports; 0 = never
    pub p_teleport: u32,
    /// fast-forward (with empty blocks) before the first step: classes by cfg.val
    pub warp: bool,
    /// mainnet/testnet histories start above every legacy-compatibility height (via the TIP-906 barrier)
    pub start_past_legacy: bool,
    /// a third of the ordinary transactions try to spend the first output of a staking transaction
    pub prefer_staked: bool,
    /// a quarter of the ordinary transactions take, as their first input, a *non-first* output of a staking transaction
    /// (one accepted earlier or one built earlier in the same batch) when the wallet holds one
    pub prefer_stake_change: bool,
    /// a third of the histories that start past the legacy heights start a few blocks below 900 000 instead (stake
    /// documents are registered from 500 000 on, the lock is enforced from 900 000 on): stakes made in that window
    /// are carried across the switch
    pub stake_window_start: bool,
    /// half of the mainnet/testnet histories start above the legacy heights (979 000), like `start_past_legacy`
    pub past_legacy_half: bool,
    /// number of small MEL coins in the seed funds (each withdrawal burns one as its fee)
    pub nuggets: usize,
    /// some faucets are the literal grandfathered mainnet faucet
    pub grandfathered_faucet: bool,
    /// one destination in eight is a covenant that reads the previous header (expiring offers, time locks)
    pub header_covenants: bool,
    /// plans contain admission checks on scratch copies and later inclusion of the admitted transactions
    pub mempool: bool,
    /// up to this many empty blocks (chosen by the plan's configuration bytes) are sealed, with the monitor
    /// attached, before the first step, so that histories reach larger heights
    pub lead_blocks: u8,
    /// off mainnet, histories begin with a faucet that hands the wallet SYM, ERG, a new token and a few small MEL coins
    pub seed_funds: bool,
    /// a third of the histories start from a state re-based (through from_block) to a low DOSC speed, so that
    /// cheap proofs of work earn a non-zero reward and move the recorded speed
    pub low_dosc_start: bool,
    /// mainnet histories begin with a jump into the window between TIP-902 (180 000) and TIP-906 (830 000)
    pub start_in_legacy_window: bool,
    /// a quarter of the mutated transactions carry an extra covenant of huge or saturated weight
    pub heavy_bias: bool,
}

impl Profile {
    pub fn general() -> Profile {
        Profile {
            net_w: [40, 25, 20, 15, 0, 0, 0, 0, 0],
            kind_w: [40, 10, 14, 10, 8, 5, 8, 0, 2],
            p_mut: 40,
            max_steps: 14,
            max_txs: 6,
            p_odd_spelling: 40,
            hostile: false,
            mel_genesis: true,
            mainnet_like_legacy: true,
            restart_replaces: true,
            p_teleport: 0,
            warp: false,
            start_past_legacy: false,
            prefer_staked: false,
            prefer_stake_change: false,
            stake_window_start: false,
            past_legacy_half: false,
            nuggets: 4,
            grandfathered_faucet: false,
            header_covenants: true,
            mempool: true,
            lead_blocks: 0,
            seed_funds: false,
            low_dosc_start: false,
            start_in_legacy_window: false,
            heavy_bias: false,
        }
    }
}

fn varint(v: u128, min_width: u8) -> Vec<u8> {
    // bincode's variable-length integers: one byte below 251, otherwise a tag (251: u16, 252: u32, 253: u64, 254: u128)
    // followed by the little-endian value; every value may be written with a wider tag than it needs
    let need = if v < 251 { 0 } else if v <= u16::MAX as u128 { 1 } else if v <= u32::MAX as u128 { 2 } else if v <= u64::MAX as u128 { 3 } else { 4 };
    let w = need.max(min_width.min(4));
    match w {
        0 => vec![v as u8],
        1 => [vec![251u8], (v as u16).to_le_bytes().to_vec()].concat(),
        2 => [vec![252u8], (v as u32).to_le_bytes().to_vec()].concat(),
        3 => [vec![253u8], (v as u64).to_le_bytes().to_vec()].concat(),
        _ => [vec![254u8], v.to_le_bytes().to_vec()].concat(),
    }
}

/// The data of a mint, `(difficulty, proof bytes)`, optionally with the difficulty and the proof's length prefix written
/// wider than necessary (valid; decodes to the same pair). `sel` = 0 gives the canonical bytes.
pub fn mint_data(difficulty: u32, proof: &[u8], sel: u8) -> Vec<u8> {
    let canon = stdcode::serialize(&(difficulty, proof.to_vec())).unwrap();
    if sel % 4 == 0 {
        return canon;
    }
    let mut out = varint(difficulty as u128, if sel & 1 == 1 { 1 + (sel >> 2) % 2 } else { 0 });
    out.extend_from_slice(&varint(proof.len() as u128, if sel & 2 == 2 { 2 + (sel >> 4) % 2 } else { 0 }));
    out.extend_from_slice(proof);
    match stdcode::deserialize::<(u32, Vec<u8>)>(&out) {
        Ok((d, p)) if d == difficulty && p == proof => out,
        _ => canon,
    }
}

/// A stake document with some of its three integers written wider than necessary. Falls back to the canonical bytes
/// unless the result decodes to exactly the same document (so the encoding is valid by construction).
pub fn padded_stake_doc(doc: &StakeDoc, sel: u8) -> Vec<u8> {
    let canon = stdcode::serialize(doc).unwrap();
    let ints = [doc.e_start as u128, doc.e_post_end as u128, doc.syms_staked.0];
    let tail_len: usize = [varint(ints[0], 0), varint(ints[1], 0)].iter().map(|v| v.len()).sum::<usize>() + varint(ints[2], 0).len();
    if tail_len > canon.len() {
        return canon;
    }
    let mut out = canon[..canon.len() - tail_len].to_vec();
    for (i, v) in ints.iter().enumerate() {
        // u64 fields can be widened up to the u64 tag, the u128 amount up to the u128 tag
        let max_w = if i < 2 { 3 } else { 4 };
        let w = if (sel >> i) & 1 == 1 { ((sel >> (3 + i)) % 4 + 1).min(max_w) } else { 0 };
        out.extend_from_slice(&varint(*v, w));
    }
    match stdcode::deserialize::<StakeDoc>(&out) {
        Ok(d) if stdcode::serialize(&d).unwrap() == canon && out != canon => out,
        _ => canon,
    }
}

/// A `TxPlan::kind` byte that the builder maps to transaction kind `want` under profile `p` (searching from `salt`).
pub fn kind_byte(p: &Profile, want: usize, salt: u8) -> u8 {
    for d in 0..=255u8 {
        let k = salt.wrapping_add(d);
        if weighted(&p.kind_w, k as u32 * 13 + 5) == want {
            return k;
        }
    }
    salt
}

fn weighted(w: &[u32], x: u32) -> usize {
    let total: u32 = w.iter().sum();
    if total == 0 {
        return 0;
    }
    let mut r = x % total;
    for (i, wi) in w.iter().enumerate() {
        if r < *wi {
            return i;
        }
        r -= wi;
    }
    0
}

// ---------------------------------------------------------------------------------------------
// strategies

pub fn arb_out() -> impl Strategy<Value = OutPlan> {
    (any::<u8>(), any::<u8>(), any::<u8>(), any::<u8>()).prop_map(|(denom, weight, dest, adata)| OutPlan { denom, weight, dest, adata })
}

pub fn arb_tx(max_ins: usize, max_outs: usize) -> impl Strategy<Value = TxPlan> {
    (
        any::<u8>(),
        proptest::collection::vec(any::<u16>(), 1..=max_ins),
        proptest::collection::vec(arb_out(), 1..=max_outs),
        any::<u8>(),
        any::<u8>(),
        any::<u16>(),
        any::<u8>(),
        any::<u8>(),
        any::<u8>(),
        any::<u16>(),
    )
        .prop_map(|(kind, ins, outs, fee, data, pool, spell, amount, mutation, mparam)| TxPlan {
            kind,
            ins,
            outs,
            fee,
            data,
            pool,
            spell,
            amount,
            mutation,
            mparam,
        })
}

pub fn arb_step(max_txs: usize) -> impl Strategy<Value = Step> {
    prop_oneof![
        10 => (proptest::collection::vec(arb_tx(3, 4), 1..=max_txs), prop_oneof![Just(0u32), any::<u32>()])
            .prop_map(|(t, o)| Step::Batch(t, o)),
        6 => proptest::option::weighted(0.5, (prop_oneof![Just(0i8), Just(127), Just(-128), any::<i8>()], any::<u8>())).prop_map(Step::Seal),
        1 => Just(Step::Restart),
        1 => (0u8..4).prop_map(Step::Empty),
        1 => any::<u8>().prop_map(Step::Teleport),
        2 => proptest::collection::vec(arb_tx(3, 4), 1..=3).prop_map(Step::Admit),
        2 => (1u8..4).prop_map(Step::Include),
    ]
}

pub fn arb_cfg() -> impl Strategy<Value = CfgPlan> {
    (
        any::<u8>(),
        any::<u8>(),
        any::<u8>(),
        any::<u8>(),
        any::<u8>(),
        any::<u8>(),
        proptest::collection::vec((any::<u8>(), any::<u8>(), any::<u8>(), any::<u8>()), 0..4),
    )
        .prop_map(|(net, denom, val, cov, fee_pool, fee_mult, st)| CfgPlan {
            net,
            denom,
            val,
            cov,
            fee_pool,
            fee_mult,
            stakes: st.into_iter().map(|(key, start, len, syms)| StakeCfg { key, start, len, syms }).collect(),
        })
}

pub fn arb_plan(p: &Profile) -> impl Strategy<Value = Plan> {
    let max_txs = p.max_txs;
    (arb_cfg(), proptest::collection::vec(arb_step(max_txs), 2..=p.max_steps)).prop_map(|(cfg, steps)| Plan { cfg, steps })
}

// ---------------------------------------------------------------------------------------------
// genesis

pub fn value_class(c: u8) -> u128 {
    match c % 8 {
        0 => 1u128 << 100,
        1 => 1_000_000_000_000,
        2 => 50_000_000_000,
        3 => 1u128 << 120,
        4 => 3_000_000,
        5 => 1u128 << 64,
        6 => 1,
        _ => 0,
    }
}

pub fn fee_mult_class(c: u8) -> u128 {
    match c % 12 {
        0 | 1 | 2 => 1000,
        3 => 0,
        4 => 1,
        5 => 2,
        6 => 65536,
        7 => 1_000_000,
        8 => 100,
        9 => 1u128 << 40,
        10 => 300,
        _ => 65535,
    }
}

pub fn genesis(cfg: &CfgPlan, p: &Profile) -> GenesisSpec {
    let net = nets()[weighted(&p.net_w, cfg.net as u32 * 7 + 3)];
    let cov = CovSpec::from_sel(cfg.cov);
    let denom = if p.mel_genesis || cfg.denom % 10 < 7 {
        Denom::Mel
    } else if cfg.denom % 10 < 9 {
        Denom::Sym
    } else {
        Denom::Erg
    };
    let mut value = value_class(cfg.val);
    if p.mel_genesis && value < 1_000_000_000 {
        value = 1u128 << 90;
    }
    let stakes = cfg
        .stakes
        .iter()
        .enumerate()
        .map(|(i, s)| {
            let start = (s.start % 3) as u64;
            (
                TxHash(tmelcrypt::hash_single(format!("genesis-stake-{}", i).as_bytes())),
                StakeDoc {
                    pubkey: pk(s.key as usize),
                    e_start: start,
                    e_post_end: start + 1 + (s.len % 4) as u64,
                    // mostly small amounts; one genesis stake in four is large (to 2^124: voting-power sums and
                    // threshold products near the top of the 128-bit range; at most 6 stakes, so the sum fits)
                    syms_staked: CoinValue(match s.syms % 16 {
                        12 => 1u128 << 64,
                        13 => (1u128 << 100) + s.syms as u128,
                        14 => (1u128 << 120) + 1,
                        15 => (1u128 << 124) + 2,
                        _ => 1 + (s.syms as u128 % 10),
                    }),
                },
            )
        })
        .collect();
    GenesisSpec {
        net,
        init: CoinData { covhash: cov.hash(), value: CoinValue(value), denom, additional_data: Default::default() },
        init_cov: cov,
        fee_pool: match cfg.fee_pool % 4 {
            _ if cfg.fee_pool % 16 == 15 => 1u128 << 125,
            0 => 0,
            1 => 5_000_000,
            2 => 1u128 << 40,
            _ => 1u128 << 100,
        },
        fee_mult: fee_mult_class(cfg.fee_mult),
        stakes,
    }
}

// ---------------------------------------------------------------------------------------------
// building transactions

#[derive(Clone, Debug, Serialize)]
pub struct TxMeta {
    pub kind: String,
    pub mutation: Option<&'static str>,
    pub valid_by_construction: bool,
    pub spends_batch_output: bool,
    pub spelling: Option<&'static str>,
    pub pool: Option<String>,
}

pub const MUTATIONS: [&str; 20] = [
    "value+1",
    "value-1",
    "repeat-input",
    "missing-coin",
    "spent-coin",
    "drop-covenant",
    "garbage-covenant",
    "corrupt-sig",
    "wrong-key-sig",
    "over-max-value",
    "256-outputs",
    "fee-1",
    "kind-swap",
    "random-data",
    "dup-tx",
    "empty-tx",
    "destroy-output",
    "input-taken-by-another-tx-of-the-batch",
    "255-maximal-outputs",
    "extra-heavy-covenant",
];

fn split(total: u128, weights: &[u8]) -> Vec<u128> {
    if weights.is_empty() {
        return vec![];
    }
    let sum: u128 = weights.iter().map(|w| *w as u128).sum();
    let mut out = vec![0u128; weights.len()];
    let mut used = 0u128;
    if sum > 0 {
        for (i, w) in weights.iter().enumerate() {
            let v = num::BigUint::from(total) * num::BigUint::from(*w as u128) / num::BigUint::from(sum);
            let v: u128 = v.try_into().unwrap();
            out[i] = v;
            used += v;
        }
    }
    let last = out.len() - 1;
    out[last] += total - used;
    out
}

fn adata(c: u8) -> bytes::Bytes {
    match c % 6 {
        0 | 1 | 2 => bytes::Bytes::new(),
        3 => vec![c].into(),
        4 => vec![c; 33].into(),
        _ => vec![0xee; 200].into(),
    }
}

pub fn spell_pool(k: PoolKey, spell: u8, odd: bool) -> (Vec<u8>, &'static str) {
    if !odd {
        return (k.to_bytes().to_vec(), "canonical");
    }
    let long = |a: Denom, b: Denom| {
        let mut v = vec![0u8; 32];
        v.extend_from_slice(&stdcode::serialize(&(a, b)).unwrap());
        v
    };
    if spell % 7 == 6 {
        // the long form in canonical order with a non-minimal length prefix (bincode accepts a wider varint tag
        // than the value needs): a valid, rarely used encoding that parses to the very same key
        let plain = long(k.left(), k.right());
        let mut v = plain[..32].to_vec();
        let body = &plain[32..];
        if !body.is_empty() && (body[0] as usize) < 251 && body.len() > body[0] as usize {
            v.extend_from_slice(&[251, body[0], 0]);
            v.extend_from_slice(&body[1..]);
            if PoolKey::from_bytes(&v) == Some(k) {
                return (v, "long-nonminimal-varint");
            }
        }
        return (plain, "long-canonical-order");
    }
    match spell % 6 {
        0 => (long(k.right(), k.left()), "long-reversed"),
        1 => (long(k.left(), k.right()), "long-canonical-order"),
        2 => (long(k.left(), k.left()), "long-equal-sides"),
        3 => (long(k.right(), k.right()), "long-equal-sides"),
        4 => {
            let mut v = k.to_bytes().to_vec();
            v.push(0);
            (v, "wrong-length")
        }
        _ => (long(Denom::Mel, k.right()), "long-with-mel"),
    }
}

struct Built {
    tx: Transaction,
    inputs: Vec<WCoin>,
    valid: bool,
    spelling: Option<&'static str>,
    pool: Option<PoolKey>,
}

fn sign_tx(tx: &mut Transaction, inputs: &[WCoin], wrong_key: bool) {
    let mut need: BTreeMap<usize, usize> = BTreeMap::new();
    for (i, c) in inputs.iter().enumerate() {
        match c.cov {
            CovSpec::SigLegacy(k) => {
                need.entry(0).or_insert(k);
            }
            CovSpec::SigNew(k) => {
                need.insert(i, k);
            }
            _ => {}
        }
    }
    tx.sigs.clear();
    if need.is_empty() {
        return;
    }
    let n = need.keys().max().unwrap() + 1;
    tx.sigs = vec![bytes::Bytes::new(); n];
    let h = tx.hash_nosigs();
    for (slot, k) in need {
        let key = if wrong_key { (k + 1) % NKEYS } else { k };
        tx.sigs[slot] = sk(key).sign(&h.0 .0).into();
    }
}

fn placeholder_sigs(tx: &mut Transaction, inputs: &[WCoin]) {
    let mut maxslot: Option<usize> = None;
    let mut slots = vec![];
    for (i, c) in inputs.iter().enumerate() {
        match c.cov {
            CovSpec::SigLegacy(_) => slots.push(0),
            CovSpec::SigNew(_) => slots.push(i),
            _ => {}
        }
    }
    for s in slots.iter() {
        maxslot = Some(maxslot.map_or(*s, |m: usize| m.max(*s)));
    }
    tx.sigs.clear();
    if let Some(m) = maxslot {
        tx.sigs = vec![bytes::Bytes::new(); m + 1];
        for s in slots {
            tx.sigs[s] = vec![0u8; 64].into();
        }
    }
}

fn pick_inputs(sels: &[u16], avail: &mut Vec<WCoin>, want: &[Denom]) -> Vec<WCoin> {
    let mut got: Vec<WCoin> = vec![];
    for d in want {
        if let Some(i) = avail.iter().position(|c| c.cdh.coin_data.denom == *d && c.cdh.coin_data.value.0 > 0) {
            got.push(avail.remove(i));
        } else if let Some(i) = avail.iter().position(|c| c.cdh.coin_data.denom == *d) {
            got.push(avail.remove(i));
        }
    }
    for s in sels {
        if avail.is_empty() || got.len() >= 6 {
            break;
        }
        let i = sel(*s, avail.len());
        got.push(avail.remove(i));
    }
    if !got.iter().any(|c| c.cdh.coin_data.denom == Denom::Mel) {
        // prefer the smallest MEL coin that is not tiny
        let mut best: Option<usize> = None;
        for (i, c) in avail.iter().enumerate() {
            if c.cdh.coin_data.denom == Denom::Mel {
                let v = c.cdh.coin_data.value.0;
                let better = match best {
                    None => true,
                    Some(b) => {
                        let bv = avail[b].cdh.coin_data.value.0;
                        (bv < 100_000_000 && v > bv) || (v >= 100_000_000 && v < bv)
                    }
                };
                if better {
                    best = Some(i);
                }
            }
        }
        if let Some(i) = best {
            got.push(avail.remove(i));
        }
    }
    // one legacy key per transaction; a legacy coin goes first so that slot 0 is its signature
    let mut legacy: Option<usize> = None;
    let mut kept = vec![];
    for c in got {
        match c.cov {
            CovSpec::SigLegacy(k) => match legacy {
                None => {
                    legacy = Some(k);
                    kept.insert(0, c)
                }
                Some(k0) if k0 == k => kept.push(c),
                _ => avail.push(c),
            },
            _ => kept.push(c),
        }
    }
    kept
}

/// Sets fee and MEL outputs so that MEL balances and fee >= min fee + tip, iterating to the fixed point.
/// `mel_outs`: indices of outputs that share the MEL left after the fee, with weights. Returns false when
/// the inputs cannot pay the fee (the transaction then underpays on purpose).
fn settle_fee(tx: &mut Transaction, mel_in: u128, fixed_mel: u128, mel_outs: &[(usize, u8)], mult: u128, tip: u128) -> bool {
    let weights: Vec<u8> = mel_outs.iter().map(|x| x.1).collect();
    let mut fee: u128 = 0;
    for _ in 0..8 {
        let rest = mel_in.saturating_sub(fixed_mel).saturating_sub(fee);
        let parts = split(rest, &weights);
        for ((idx, _), v) in mel_outs.iter().zip(parts.iter()) {
            tx.outputs[*idx].value = CoinValue((*v).min(MAX_COINVAL));
        }
        tx.fee = CoinValue(fee.min(MAX_COINVAL));
        let min = refstf::min_fee(tx, mult);
        let want = min.saturating_add(tip);
        if mel_outs.is_empty() {
            // no MEL output to absorb change: everything left is fee
            let all = mel_in.saturating_sub(fixed_mel);
            tx.fee = CoinValue(all.min(MAX_COINVAL));
            return all >= min && all <= MAX_COINVAL;
        }
        if fee >= want && fee + fixed_mel <= mel_in {
            // MEL outputs that were capped would unbalance the transaction
            let out_sum: u128 = mel_outs.iter().map(|(i, _)| tx.outputs[*i].value.0).sum();
            return out_sum + fee + fixed_mel == mel_in;
        }
        if want + fixed_mel > mel_in {
            tx.fee = CoinValue((mel_in.saturating_sub(fixed_mel)).min(MAX_COINVAL));
            let rest = 0;
            let parts = split(rest, &weights);
            for ((idx, _), v) in mel_outs.iter().zip(parts.iter()) {
                tx.outputs[*idx].value = CoinValue(*v);
            }
            return false;
        }
        fee = want;
    }
    false
}

fn tip_class(c: u8) -> u128 {
    match c % 8 {
        0 | 1 | 2 | 3 => 0,
        4 => 1,
        5 => 1000,
        6 => 77_777,
        _ => 1_000_000_000,
    }
}

fn amount_class(c: u8, have: u128) -> u128 {
    let v = match c % 10 {
        0 => have,
        1 => have / 2,
        2 => 1,
        3 => 1000,
        4 => have / 3,
        5 => 1_000_000,
        6 => have.saturating_sub(1),
        7 => have / 1000,
        8 => 12345,
        _ => have / 10,
    };
    v.min(have).min(MAX_COINVAL)
}

pub struct Builder<'a> {
    pub w: &'a World,
    pub p: &'a Profile,
    pub avail: Vec<WCoin>,
    pub mult: u128,
    pub height: u64,
    pub pools: Vec<PoolKey>,
    pub batch_created: Vec<CoinID>,
    pub batch_spent: Vec<CoinID>,
    pub batch_faucet_fees: u128,
    pub pool_liqs: Vec<(PoolKey, u128)>,
    pub pool_states: BTreeMap<PoolKey, melstructs::PoolState>,
    /// pools that do not exist but whose (forged) liquidity tokens the wallet holds
    pub forged_new: Vec<PoolKey>,
    /// staking transactions built earlier in this batch
    pub batch_stakes: Vec<TxHash>,
    /// outputs of this batch's transactions that were sent to the destruction address (never created)
    pub batch_burnt: Vec<CoinID>,
}

impl<'a> Builder<'a> {
    pub fn new(w: &'a World, p: &'a Profile, snap: &Snap) -> Self {
        let mut pools: Vec<PoolKey> = vec![PoolKey::new(Denom::Mel, Denom::Sym), PoolKey::new(Denom::Mel, Denom::Erg), PoolKey::new(Denom::Erg, Denom::Sym)];
        for k in snap.pools.keys() {
            if !pools.contains(k) && k.left() != k.right() {
                pools.push(*k);
            }
        }
        let mut forged_new: Vec<PoolKey> = vec![];
        // pools that do not exist (yet) but whose liquidity tokens the wallet holds (forged by a hostile faucet)
        if p.hostile {
            let mut ds: Vec<Denom> = w.wallet.iter().map(|c| c.cdh.coin_data.denom).collect();
            ds.sort();
            ds.dedup();
            let customs: Vec<Denom> = ds.iter().copied().filter(|d| matches!(d, Denom::Custom(_))).collect();
            if !customs.is_empty() && ds.len() <= 10 {
                for a in ds.iter() {
                    for b in ds.iter() {
                        if a < b {
                            let k = PoolKey::new(*a, *b);
                            if !pools.contains(&k) && customs.contains(&k.liq_token_denom()) {
                                pools.push(k);
                                forged_new.push(k);
                            }
                        }
                    }
                }
            }
        }
        Builder { w, p, avail: w.wallet.clone(), mult: snap.fee_mult, height: snap.height, pools, batch_created: vec![], batch_spent: vec![], batch_faucet_fees: 0, pool_liqs: snap.pools.iter().filter(|(k, p)| k.left() != k.right() && p.liqs > 0).map(|(k, p)| (*k, p.liqs)).collect(), pool_states: snap.pools.clone(), forged_new, batch_stakes: vec![], batch_burnt: vec![] }
    }

    /// Destination address of a generic output: usually one of the harness's covenants; one in sixteen is a *twin* of
    /// such an address - equal in its leading bytes (8 to 31 of them), different later - which nobody can spend but
    /// which every per-address structure (coin counts, sorted runs, prefix-keyed maps) must keep apart.
    fn dest_hash(&self, d: u8, salt: u8) -> melstructs::Address {
        let mut a = self.dest(d).hash();
        if salt % 16 == 15 {
            let at = [8usize, 9, 16, 31][(salt as usize / 16) % 4];
            a.0 .0[at] ^= 0x40;
        }
        a
    }

    fn dest(&self, d: u8) -> CovSpec {
        if self.p.header_covenants {
            CovSpec::from_sel_with_header(d)
        } else {
            CovSpec::from_sel(d)
        }
    }

    fn after(&mut self, b: &Built) {
        // outputs become spendable inside the batch
        let h = b.tx.hash_nosigs();
        if b.tx.kind == TxKind::Stake {
            self.batch_stakes.push(h);
        }
        for (i, o) in b.tx.outputs.iter().enumerate().take(255) {
            if let Some(spec) = self.w.spec_for(o.covhash) {
                let mut cd = o.clone();
                if cd.denom == Denom::NewCustom {
                    cd.denom = Denom::Custom(h);
                }
                let id = CoinID::new(h, i as u8);
                self.batch_created.push(id);
                self.avail.push(WCoin { id, cdh: CoinDataHeight { coin_data: cd, height: BlockHeight(self.height) }, cov: spec });
            }
        }
    }

    fn base(&self, kind: TxKind, inputs: &[WCoin]) -> Transaction {
        let mut covs: Vec<Vec<u8>> = vec![];
        for c in inputs {
            let b = c.cov.bytes();
            if !covs.contains(&b) {
                covs.push(b);
            }
        }
        Transaction {
            kind,
            inputs: inputs.iter().map(|c| c.id).collect(),
            outputs: vec![],
            fee: CoinValue(0),
            covenants: covs.into_iter().map(|c| c.into()).collect(),
            data: Default::default(),
            sigs: vec![],
        }
    }

    fn totals(inputs: &[WCoin]) -> BTreeMap<Denom, u128> {
        let mut m = BTreeMap::new();
        for c in inputs {
            let e = m.entry(c.cdh.coin_data.denom).or_insert(0u128);
            *e = e.saturating_add(c.cdh.coin_data.value.0);
        }
        m
    }

    /// Adds change outputs for every non-MEL denomination (optionally leaving `skip` to the caller) and returns
    /// the MEL output slots.
    fn change_outputs(&self, tx: &mut Transaction, tp: &TxPlan, totals: &BTreeMap<Denom, u128>, reserved: &BTreeMap<Denom, u128>) -> Vec<(usize, u8)> {
        let mut mel_slots = vec![];
        let denoms: Vec<Denom> = totals.keys().copied().collect();
        // planned outputs choose a denomination among the inputs'
        let mut per_denom: BTreeMap<Denom, Vec<(usize, u8)>> = BTreeMap::new();
        for op in tp.outs.iter() {
            if denoms.is_empty() {
                break;
            }
            let d = denoms[op.denom as usize % denoms.len()];
            let idx = tx.outputs.len();
            tx.outputs.push(CoinData {
                covhash: self.dest_hash(op.dest, op.adata),
                value: CoinValue(0),
                denom: d,
                additional_data: adata(op.adata),
            });
            per_denom.entry(d).or_default().push((idx, op.weight));
        }
        for d in denoms {
            let total = totals[&d].saturating_sub(*reserved.get(&d).unwrap_or(&0));
            let slots = per_denom.entry(d).or_default();
            if slots.is_empty() && (d == Denom::Mel || total > 0) {
                let idx = tx.outputs.len();
                tx.outputs.push(CoinData {
                    covhash: self.dest(tp.fee.wrapping_mul(31)).hash(),
                    value: CoinValue(0),
                    denom: d,
                    additional_data: Default::default(),
                });
                slots.push((idx, 1));
            }
            if d == Denom::Mel {
                mel_slots = slots.clone();
            } else {
                let ws: Vec<u8> = slots.iter().map(|s| s.1).collect();
                let parts = split(total, &ws);
                let mut extra = vec![];
                for ((idx, _), v) in slots.iter().zip(parts) {
                    let mut v = v;
                    while v > MAX_COINVAL {
                        extra.push((tx.outputs[*idx].clone(), MAX_COINVAL));
                        v -= MAX_COINVAL;
                    }
                    tx.outputs[*idx].value = CoinValue(v);
                }
                for (mut o, v) in extra {
                    if tx.outputs.len() < 250 {
                        o.value = CoinValue(v);
                        tx.outputs.push(o);
                    }
                }
            }
        }
        mel_slots
    }

    fn finish(&self, mut tx: Transaction, inputs: Vec<WCoin>, tp: &TxPlan, mel_slots: &[(usize, u8)], fixed_mel: u128) -> Built {
        placeholder_sigs(&mut tx, &inputs);
        // a transaction that needs no signature may still carry a list of empty ones: same identity (hash without
        // signatures), another serialisation
        let blanks = if tx.sigs.is_empty() && tp.fee % 16 == 13 { 1 + (tp.fee as usize / 16) % 2 } else { 0 };
        tx.sigs.extend((0..blanks).map(|_| bytes::Bytes::new()));
        let mel_in = *Self::totals(&inputs).get(&Denom::Mel).unwrap_or(&0);
        let has_mel = inputs.iter().any(|c| c.cdh.coin_data.denom == Denom::Mel);
        let ok = settle_fee(&mut tx, mel_in, fixed_mel, mel_slots, self.mult, tip_class(tp.fee));
        sign_tx(&mut tx, &inputs, false);
        if blanks > 0 && tx.sigs.is_empty() {
            tx.sigs.extend((0..blanks).map(|_| bytes::Bytes::new()));
        }
        Built { tx, inputs, valid: ok && has_mel, spelling: None, pool: None }
    }

    fn build_normal(&mut self, tp: &TxPlan, new_token: bool) -> Option<Built> {
        let mut ins = tp.ins.clone();
        let mut staked_pos: Option<bool> = None;
        if self.p.prefer_staked && tp.amount % 3 == 0 {
            let staked: Vec<TxHash> = self.w.staked_txs.iter().map(|x| x.0).collect();
            let cands: Vec<usize> = self.avail.iter().enumerate().filter(|(_, c)| c.id.index == 0 && staked.contains(&c.id.txhash)).map(|(i, _)| i).collect();
            if !cands.is_empty() {
                let i = cands[sel(tp.pool, cands.len())];
                let c = self.avail.remove(i);
                self.avail.insert(0, c);
                ins.insert(0, 0);
                staked_pos = Some(tp.amount % 2 == 0);
            }
        }
        if self.p.prefer_stake_change && staked_pos.is_none() && tp.amount % 4 == 1 {
            let mut staked: Vec<TxHash> = self.w.staked_txs.iter().map(|x| x.0).collect();
            staked.extend(self.batch_stakes.iter().copied());
            let cands: Vec<usize> = self.avail.iter().enumerate().filter(|(_, c)| c.id.index >= 1 && staked.contains(&c.id.txhash)).map(|(i, _)| i).collect();
            if !cands.is_empty() {
                let i = cands[sel(tp.pool, cands.len())];
                let c = self.avail.remove(i);
                self.avail.insert(0, c);
                ins.insert(0, 0);
            }
        }
        let mut inputs = pick_inputs(&ins, &mut self.avail, &[]);
        if staked_pos == Some(false) && inputs.len() >= 2 && !matches!(inputs[0].cov, CovSpec::SigLegacy(_)) {
            // the staked coin goes last, behind coins that may share its covenant
            let c = inputs.remove(0);
            inputs.push(c);
        }
        if inputs.is_empty() {
            return None;
        }
        let mut tx = self.base(TxKind::Normal, &inputs);
        let totals = Self::totals(&inputs);
        if new_token {
            tx.outputs.push(CoinData {
                covhash: self.dest(tp.spell).hash(),
                value: CoinValue(amount_class(tp.amount, 1u128 << 100).max(1)),
                denom: Denom::NewCustom,
                additional_data: adata(tp.data),
            });
            if tp.amount % 16 == 9 {
                // a very large issue of the new token: 129-200 further outputs of the maximal coin value (together above
                // 2^127, still a valid 128-bit total) to an address nobody can spend from, so that the wallet and the
                // pools never see them; two such transactions in one block declare more than 2^128 between them
                let mut nobody = CovSpec::True.hash();
                nobody.0 .0[3] ^= 0x55;
                for _ in 0..(129 + (tp.mparam % 72) as usize) {
                    tx.outputs.push(CoinData { covhash: nobody, value: CoinValue(MAX_COINVAL), denom: Denom::NewCustom, additional_data: Default::default() });
                }
            }
        }
        // now and then split off a small MEL coin: liquidity withdrawals need a coin they can spend entirely on fees
        let mut reserved = BTreeMap::new();
        let mut fixed_mel = 0u128;
        let mel_in = *totals.get(&Denom::Mel).unwrap_or(&0);
        let nugget = (3000u128.saturating_mul(self.mult) >> 16).saturating_mul(8).max(50_000_000);
        if tp.fee % 4 == 1 && mel_in > nugget.saturating_mul(1000) {
            tx.outputs.push(CoinData { covhash: CovSpec::True.hash(), value: CoinValue(nugget), denom: Denom::Mel, additional_data: Default::default() });
            reserved.insert(Denom::Mel, nugget);
            fixed_mel = nugget;
        }
        let mel_slots = self.change_outputs(&mut tx, tp, &totals, &reserved);
        tx.data = match tp.data % 8 {
            0..=4 => Default::default(),
            5 => vec![tp.data; 7].into(),
            6 => b"s".to_vec().into(),
            _ => vec![0x5a; 300].into(),
        };
        Some(self.finish(tx, inputs, tp, &mel_slots, fixed_mel))
    }

    fn build_faucet(&mut self, tp: &TxPlan) -> Option<Built> {
        if self.p.grandfathered_faucet && tp.amount % 8 == 3 {
            // the one historical mainnet faucet the code still lets through (its body is in the repository's tests)
            let tx = grandfathered_faucet();
            let valid = tx.fee.0 >= refstf::min_fee(&tx, self.mult);
            return Some(Built { tx, inputs: vec![], valid, spelling: None, pool: None });
        }
        let mut tx = Transaction::new(TxKind::Faucet);
        let denoms = [Denom::Mel, Denom::Sym, Denom::Erg, Denom::Mel, Denom::Sym, Denom::NewCustom];
        for op in tp.outs.iter() {
            let mut d = denoms[op.denom as usize % denoms.len()];
            let mut v = value_class(op.weight);
            if self.p.hostile && op.denom % 5 == 4 && op.weight % 7 == 6 {
                // forged liquidity tokens of a pool that does not exist yet (a deposit may create it in this very block)
                let mut ds: Vec<Denom> = self.avail.iter().map(|c| c.cdh.coin_data.denom).filter(|d| *d != Denom::NewCustom).collect();
                ds.sort();
                ds.dedup();
                if ds.len() >= 2 {
                    let a = ds[op.adata as usize % ds.len()];
                    let b = ds[(op.adata as usize / 7 + 1 + op.adata as usize % ds.len()) % ds.len()];
                    if a != b {
                        let k = PoolKey::new(a, b);
                        if !self.pool_states.contains_key(&k) {
                            d = k.liq_token_denom();
                            v = value_class(op.adata).min(MAX_COINVAL).max(1);
                        }
                    }
                }
            } else if self.p.hostile && op.denom % 5 == 4 && !self.pool_liqs.is_empty() {
                // forged liquidity tokens (a faucet may name any denomination): a share of what the pool has issued,
                // so that several withdrawals in one block can each fit and together exceed it
                let (k, liqs) = self.pool_liqs[sel(op.adata as u16 * 257, self.pool_liqs.len())];
                d = k.liq_token_denom();
                v = match op.weight % 4 {
                    0 => liqs,
                    1 => liqs / 5 * 3,
                    2 => liqs / 2 + 1,
                    _ => liqs.saturating_add(1).min(MAX_COINVAL),
                }
                .min(MAX_COINVAL);
            }
            let issued = self.w.issued.get(&d).copied().unwrap_or(0);
            if issued.saturating_add(v) > (1u128 << 124) {
                v = 1000;
            }
            tx.outputs.push(CoinData { covhash: self.dest_hash(op.dest, op.adata.wrapping_mul(7)), value: CoinValue(v), denom: d, additional_data: adata(op.adata) });
        }
        tx.data = vec![tp.data, tp.spell, tp.amount].into();
        tx.fee = CoinValue(match tp.fee % 4 {
            0 => 0,
            1 => 1_000_000,
            2 => 20_000_000_000,
            _ => 1u128 << 70,
        });
        // one faucet in sixteen pays the largest well-formed fee (tips and fee pool near the top of the coin range)
        if tp.fee % 16 == 15 {
            let pending: u128 = self.batch_faucet_fees;
            let issued = self.w.issued.get(&Denom::Mel).copied().unwrap_or(0);
            if issued.saturating_add(pending).saturating_add(MAX_COINVAL) <= (1u128 << 124) {
                tx.fee = CoinValue(MAX_COINVAL);
                self.batch_faucet_fees += MAX_COINVAL;
            }
        }
        let valid = self.w.net != NetID::Mainnet && tx.fee.0 >= refstf::min_fee(&tx, self.mult);
        Some(Built { tx, inputs: vec![], valid, spelling: None, pool: None })
    }

    /// A mint against a MEL coin of an earlier block, with a genuine (cheap) proof of work.
    fn build_doscmint(&mut self, tp: &TxPlan) -> Option<Built> {
        let h = self.height;
        if h == 0 {
            return None;
        }
        if tp.mparam % 8 == 5 {
            // a mint whose seed coin was created in the block under construction (age 0: there is no header yet to
            // derive the puzzle from, and no elapsed time to measure a speed over): well-formed data, any proof
            if let Some(idx) = self.avail.iter().position(|c| c.cdh.coin_data.denom == Denom::Mel && c.cdh.height.0 == h && c.cdh.coin_data.value.0 > 0) {
                let coin = self.avail.remove(idx);
                let inputs = vec![coin];
                let mut tx = self.base(TxKind::DoscMint, &inputs);
                let difficulty = [1u32, 2, 10, 32, 64, 65][(tp.amount % 6) as usize];
                let proof = vec![(tp.amount >> 3) as u8; 40 * (tp.data as usize % 3)];
                tx.data = mint_data(difficulty, &proof, 0).into();
                tx.outputs.push(CoinData { covhash: self.dest(tp.outs[0].dest).hash(), value: CoinValue((tp.data % 2) as u128), denom: Denom::Erg, additional_data: Default::default() });
                let totals = Self::totals(&inputs);
                let tp2 = TxPlan { outs: tp.outs[1..].to_vec(), ..tp.clone() };
                let mel_slots = self.change_outputs(&mut tx, &tp2, &totals, &BTreeMap::new());
                let mut b = self.finish(tx, inputs, tp, &mel_slots, 0);
                b.valid = false;
                return Some(b);
            }
        }
        let idx = self.avail.iter().position(|c| {
            c.cdh.coin_data.denom == Denom::Mel && c.cdh.height.0 < h && c.cdh.coin_data.value.0 > 0 && self.w.header_at(c.cdh.height.0).is_some() && !self.batch_created.contains(&c.id)
        })?;
        let coin = self.avail.remove(idx);
        let hdr = self.w.header_at(coin.cdh.height.0)?;
        let prev = self.w.header_at(h - 1)?.dosc_speed;
        let tip910 = tp.spell % 2 == 0;
        let difficulty: u32 = if tip910 { 1 + (tp.amount % 6) as u32 } else { 1 + (tp.amount % 10) as u32 };
        let age = h - coin.cdh.height.0;
        let bound = refstf::mint_bound(if tip910 { 100 } else { 1 }, difficulty, age, prev, h).map(|x| x.1).unwrap_or(0).min(MAX_COINVAL);
        let erg = match tp.data % 5 {
            0 | 1 => bound,
            2 => bound / 2,
            3 => 0,
            _ => bound.saturating_add(1).min(MAX_COINVAL),
        };
        let puzzle = tmelcrypt::hash_keyed(hdr.hash(), &stdcode::serialize(&coin.id).unwrap());
        let proof = if tip910 {
            melpow::Proof::generate(&puzzle, difficulty as usize, melstf::Tip910MelPowHash)
        } else {
            melpow::Proof::generate(&puzzle, difficulty as usize, melstf::LegacyMelPowHash)
        };
        let inputs = {
            let mut v = vec![coin.clone()];
            // legacy-signature coins want slot 0: fine, the minted coin is input 0 anyway
            v.retain(|_| true);
            v
        };
        let mut tx = self.base(TxKind::DoscMint, &inputs);
        tx.data = mint_data(difficulty, &proof.to_bytes(), if tp.mparam % 5 == 4 { (tp.mparam >> 3) as u8 } else { 0 }).into();
        if tp.fee % 3 == 0 && erg >= 1 {
            // the minted ERG split over two outputs, the larger part first
            tx.outputs.push(CoinData { covhash: self.dest(tp.outs[0].dest).hash(), value: CoinValue(erg - 1), denom: Denom::Erg, additional_data: Default::default() });
            tx.outputs.push(CoinData { covhash: self.dest(tp.outs[0].dest).hash(), value: CoinValue(1), denom: Denom::Erg, additional_data: Default::default() });
        } else {
            tx.outputs.push(CoinData { covhash: self.dest(tp.outs[0].dest).hash(), value: CoinValue(erg), denom: Denom::Erg, additional_data: Default::default() });
        }
        let totals = Self::totals(&inputs);
        let tp2 = TxPlan { outs: tp.outs[1..].to_vec(), ..tp.clone() };
        let mel_slots = self.change_outputs(&mut tx, &tp2, &totals, &BTreeMap::new());
        let mut b = self.finish(tx, inputs, tp, &mel_slots, 0);
        b.valid = b.valid && erg <= bound && (self.w.net != NetID::Mainnet || age >= 100);
        Some(b)
    }

    fn build_refaucet(&mut self, tp: &TxPlan) -> Option<Built> {
        if self.w.faucets_seen.is_empty() {
            return None;
        }
        let tx = self.w.faucets_seen[sel(tp.pool, self.w.faucets_seen.len())].clone();
        Some(Built { tx, inputs: vec![], valid: false, spelling: None, pool: None })
    }

    fn choose_pool(&self, tp: &TxPlan, need_both: bool) -> Option<PoolKey> {
        // candidate pools: those for which the wallet holds a side
        let have: Vec<Denom> = self.avail.iter().map(|c| c.cdh.coin_data.denom).collect();
        let mut cands: Vec<PoolKey> = self
            .pools
            .iter()
            .copied()
            .filter(|k| if need_both { have.contains(&k.left()) && have.contains(&k.right()) } else { have.contains(&k.left()) || have.contains(&k.right()) })
            .collect();
        if need_both {
            // brand-new pools between any two distinct held denominations
            let mut ds: Vec<Denom> = have.clone();
            ds.sort();
            ds.dedup();
            for a in ds.iter() {
                for b in ds.iter() {
                    if a != b && *a != Denom::NewCustom && *b != Denom::NewCustom {
                        let k = PoolKey::new(*a, *b);
                        if !cands.contains(&k) && cands.len() < 12 {
                            cands.push(k);
                        }
                    }
                }
            }
        }
        if cands.is_empty() {
            return None;
        }
        Some(cands[sel(tp.pool, cands.len())])
    }

    /// A pool request whose data is the empty string (or the long spelling of the same key). The empty string is the
    /// byte form of the placeholder `NewCustom`, so the data parses as a pool between "the transaction's own new token"
    /// and MEL - a side that is not a denomination. Output 0 declares a new token (free to create), output 1 MEL.
    fn build_newtoken_request(&mut self, tp: &TxPlan, kind: TxKind) -> Option<Built> {
        let inputs = pick_inputs(&tp.ins[..tp.ins.len().min(1)], &mut self.avail, &[Denom::Mel]);
        let totals = Self::totals(&inputs);
        let have = *totals.get(&Denom::Mel).unwrap_or(&0);
        if have == 0 {
            return None;
        }
        let mut tx = self.base(kind, &inputs);
        let a = value_class(tp.amount).min(MAX_COINVAL).max(1);
        let b = amount_class(tp.amount.rotate_left(3), have / 2).max(1);
        tx.data = if tp.mparam % 2 == 0 {
            Vec::new().into()
        } else {
            let mut v = vec![0u8; 32];
            v.extend_from_slice(&stdcode::serialize(&(Denom::NewCustom, Denom::Mel)).unwrap());
            v.into()
        };
        let dest = self.dest(tp.outs[0].dest).hash();
        tx.outputs.push(CoinData { covhash: dest, value: CoinValue(a), denom: Denom::NewCustom, additional_data: Default::default() });
        let mut reserved = BTreeMap::new();
        let mut fixed_mel = 0;
        if kind == TxKind::LiqDeposit {
            tx.outputs.push(CoinData { covhash: dest, value: CoinValue(b), denom: Denom::Mel, additional_data: Default::default() });
            reserved.insert(Denom::Mel, b);
            fixed_mel = b;
        }
        let tp2 = TxPlan { outs: tp.outs[1..].to_vec(), ..tp.clone() };
        let mel_slots = self.change_outputs(&mut tx, &tp2, &totals, &reserved);
        let mut bb = self.finish(tx, inputs, tp, &mel_slots, fixed_mel);
        bb.spelling = Some("new-token-side");
        bb.pool = None;
        Some(bb)
    }

    fn build_swap(&mut self, tp: &TxPlan) -> Option<Built> {
        if (tp.spell as u32) < self.p.p_odd_spelling && tp.mparam % 7 == 6 {
            if let Some(b) = self.build_newtoken_request(tp, TxKind::Swap) {
                return Some(b);
            }
        }
        let k = self.choose_pool(tp, false)?;
        let have_left = self.avail.iter().any(|c| c.cdh.coin_data.denom == k.left());
        let have_right = self.avail.iter().any(|c| c.cdh.coin_data.denom == k.right());
        let side = if have_left && (!have_right || tp.amount & 0x80 == 0) { k.left() } else { k.right() };
        let inputs = pick_inputs(&tp.ins[..tp.ins.len().min(1)], &mut self.avail, &[side]);
        let mut tx = self.base(TxKind::Swap, &inputs);
        let totals = Self::totals(&inputs);
        let have = *totals.get(&side).unwrap_or(&0);
        let mut amt = amount_class(tp.amount, if side == Denom::Mel { have / 2 } else { have });
        if tp.amount % 16 == 11 {
            // a value that coincides with one the pool holds: exactly the reserve of the side paid in, of the other
            // side, or the liquidity counter
            if let Some(ps) = self.pool_states.get(&k) {
                let pick = [if side == k.left() { ps.lefts } else { ps.rights }, if side == k.left() { ps.rights } else { ps.lefts }, ps.liqs][(tp.mparam as usize / 7) % 3];
                if pick > 0 && pick <= have && pick <= MAX_COINVAL {
                    amt = pick;
                }
            }
        }
        if amt == 0 && !self.p.hostile {
            amt = have.min(1);
        }
        let odd = (tp.spell as u32) < self.p.p_odd_spelling;
        let (data, spelling) = spell_pool(k, tp.mparam as u8, odd);
        tx.data = data.into();
        tx.outputs.push(CoinData { covhash: self.dest(tp.outs[0].dest).hash(), value: CoinValue(amt), denom: side, additional_data: adata(tp.outs[0].adata) });
        let mut reserved = BTreeMap::new();
        reserved.insert(side, amt);
        let tp2 = TxPlan { outs: tp.outs[1..].to_vec(), ..tp.clone() };
        let mel_slots = self.change_outputs(&mut tx, &tp2, &totals, &reserved);
        let fixed_mel = if side == Denom::Mel { amt } else { 0 };
        let mut b = self.finish(tx, inputs, tp, &mel_slots, fixed_mel);
        b.spelling = Some(spelling);
        b.pool = Some(k);
        Some(b)
    }

    fn build_deposit(&mut self, tp: &TxPlan) -> Option<Built> {
        if self.p.mainnet_like_legacy && refstf::legacy_net(self.w.net) && self.height < 978_392 {
            // legacy deposit regime (known finding KF-L3): the second coin is "removed" under a wrong id
            return None;
        }
        if (tp.spell as u32) < self.p.p_odd_spelling && tp.mparam % 7 == 6 {
            if let Some(b) = self.build_newtoken_request(tp, TxKind::LiqDeposit) {
                return Some(b);
            }
        }
        let mut k = self.choose_pool(tp, true)?;
        // someone who holds liquidity tokens of a pool that does not exist yet deposits into exactly that pool
        if tp.amount % 2 == 0 {
            if let Some(fk) = self.forged_new.iter().find(|fk| self.avail.iter().any(|c| c.cdh.coin_data.denom == fk.left()) && self.avail.iter().any(|c| c.cdh.coin_data.denom == fk.right())) {
                k = *fk;
            }
        }
        let inputs = pick_inputs(&tp.ins[..tp.ins.len().min(1)], &mut self.avail, &[k.left(), k.right()]);
        let totals = Self::totals(&inputs);
        let (hl, hr) = (*totals.get(&k.left()).unwrap_or(&0), *totals.get(&k.right()).unwrap_or(&0));
        let mut tx = self.base(TxKind::LiqDeposit, &inputs);
        let cap = |d: Denom, have: u128| if d == Denom::Mel { have / 2 } else { have };
        let mut a = amount_class(tp.amount, cap(k.left(), hl));
        let mut b = amount_class(tp.amount.rotate_left(3), cap(k.right(), hr));
        if tp.amount % 16 == 11 {
            // exactly the pool's reserves (doubling it), where the wallet can afford that
            if let Some(ps) = self.pool_states.get(&k) {
                if ps.lefts > 0 && ps.rights > 0 && ps.lefts <= cap(k.left(), hl) && ps.rights <= cap(k.right(), hr) && ps.lefts <= MAX_COINVAL && ps.rights <= MAX_COINVAL {
                    a = ps.lefts;
                    b = ps.rights;
                }
            }
        }
        if !self.p.hostile {
            a = a.max(hl.min(1));
            b = b.max(hr.min(1));
        }
        // one-sided deposits (zero on the left or on the right): alone they are left unsettled; two of them with the
        // zeros on different sides form a batch that settles, in which every single deposit has weight sqrt(a*b) = 0
        match tp.amount % 16 {
            13 => a = 0,
            14 => b = 0,
            _ => {}
        }
        let odd = (tp.spell as u32) < self.p.p_odd_spelling;
        let (data, spelling) = spell_pool(k, tp.mparam as u8, odd);
        tx.data = data.into();
        let dest = self.dest(tp.outs[0].dest).hash();
        tx.outputs.push(CoinData { covhash: dest, value: CoinValue(a), denom: k.left(), additional_data: Default::default() });
        tx.outputs.push(CoinData { covhash: dest, value: CoinValue(b), denom: k.right(), additional_data: Default::default() });
        let sides_swapped = tp.amount % 16 == 12;
        if sides_swapped {
            // the pool's right side listed first: the data names the pool, the shape does not match it - not a request
            tx.outputs.swap(0, 1);
        }
        let mut reserved = BTreeMap::new();
        reserved.insert(k.left(), a);
        reserved.insert(k.right(), b);
        let tp2 = TxPlan { outs: tp.outs[1..].to_vec(), ..tp.clone() };
        let mel_slots = self.change_outputs(&mut tx, &tp2, &totals, &reserved);
        let fixed_mel = if k.left() == Denom::Mel { a } else if k.right() == Denom::Mel { b } else { 0 };
        let mut bb = self.finish(tx, inputs, tp, &mel_slots, fixed_mel);
        bb.spelling = Some(spelling);
        bb.pool = Some(k);
        Some(bb)
    }

    fn build_withdraw(&mut self, tp: &TxPlan) -> Option<Built> {
        // find a liquidity-token coin
        let mut found: Option<(usize, PoolKey)> = None;
        let start = sel(tp.pool, self.avail.len().max(1));
        for off in 0..self.avail.len() {
            let i = (start + off) % self.avail.len();
            let d = self.avail[i].cdh.coin_data.denom;
            if let Some(k) = self.pools.iter().find(|k| k.liq_token_denom() == d) {
                found = Some((i, *k));
                break;
            }
        }
        let (i, k) = found?;
        let liq = self.avail.remove(i);
        // a small MEL coin pays the fee in full (a withdrawal has exactly one output): the smallest one that covers
        // a generous estimate of the minimum fee, never a coin that holds most of the wallet's MEL
        let estimate = 3000u128.saturating_mul(self.mult) >> 16;
        let mut best: Option<usize> = None;
        for (j, c) in self.avail.iter().enumerate() {
            let v = c.cdh.coin_data.value.0;
            if c.cdh.coin_data.denom == Denom::Mel && v <= MAX_COINVAL && v >= estimate && v <= estimate.saturating_mul(1000).max(1u128 << 44) {
                if best.map_or(true, |b| v < self.avail[b].cdh.coin_data.value.0) {
                    best = Some(j);
                }
            }
        }
        if best.is_none() {
            // no suitable fee coin: give the liquidity coin back and let the caller fall back to an ordinary
            // transaction (which splits coins)
            self.avail.push(liq);
            return None;
        }
        let mut inputs = vec![liq.clone()];
        if let Some(j) = best {
            inputs.push(self.avail.remove(j));
        }
        // legacy-sig ordering
        if let CovSpec::SigLegacy(_) = inputs.last().unwrap().cov {
            inputs.reverse();
        }
        if let (CovSpec::SigLegacy(a), CovSpec::SigLegacy(b)) = (&inputs[0].cov, &inputs.last().unwrap().cov) {
            if a != b {
                return None;
            }
        }
        let mut tx = self.base(TxKind::LiqWithdraw, &inputs);
        let odd = (tp.spell as u32) < self.p.p_odd_spelling;
        let (data, spelling) = spell_pool(k, tp.mparam as u8, odd);
        tx.data = data.into();
        tx.outputs.push(CoinData {
            covhash: self.dest(tp.outs[0].dest).hash(),
            value: liq.cdh.coin_data.value,
            denom: liq.cdh.coin_data.denom,
            additional_data: adata(tp.outs[0].adata),
        });
        let mut mel_slots: Vec<(usize, u8)> = vec![];
        if tp.fee % 5 == 4 {
            // a second output makes this a non-request: it must be left exactly as declared
            tx.outputs.push(CoinData {
                covhash: self.dest(tp.outs[0].dest.wrapping_add(3)).hash(),
                value: CoinValue(0),
                denom: Denom::Mel,
                additional_data: Default::default(),
            });
            mel_slots.push((1, 1));
        }
        let mut b = self.finish(tx, inputs, tp, &mel_slots, 0);
        b.spelling = Some(if mel_slots.is_empty() { spelling } else { "withdrawal-with-second-output" });
        b.pool = Some(k);
        Some(b)
    }

    fn build_stake(&mut self, tp: &TxPlan) -> Option<Built> {
        let inputs = pick_inputs(&tp.ins[..tp.ins.len().min(1)], &mut self.avail, &[Denom::Sym]);
        let totals = Self::totals(&inputs);
        let have = *totals.get(&Denom::Sym).unwrap_or(&0);
        if have == 0 {
            return None;
        }
        // one stake in sixteen declares (and locks) exactly zero SYM: a consistent document all the same
        let amt = if tp.amount % 16 == 5 { 0 } else { amount_class(tp.amount, have).max(1) };
        let epoch = self.height / 200_000;
        let (start, end) = match tp.spell % 8 {
            0 | 1 | 2 | 3 => (epoch + 1, epoch + 2 + (tp.spell as u64 % 3)),
            4 => (epoch, epoch + 2),
            5 => (epoch + 1, epoch + 1),
            6 => (epoch + 2, epoch + 1),
            _ => (epoch + 1, u64::MAX),
        };
        let staked = if tp.data % 8 == 7 { amt + 1 } else { amt };
        let doc = StakeDoc { pubkey: pk(tp.mparam as usize), e_start: start, e_post_end: end, syms_staked: CoinValue(staked) };
        let mut tx = self.base(TxKind::Stake, &inputs);
        tx.data = if tp.data % 16 == 15 {
            vec![1, 2, 3].into()
        } else if tp.data % 16 == 14 {
            // the same document in a valid but non-minimal serialisation (integers written with wider varint tags)
            padded_stake_doc(&doc, tp.mparam as u8).into()
        } else {
            stdcode::serialize(&doc).unwrap().into()
        };
        let dest = self.dest(tp.outs[0].dest);
        tx.outputs.push(CoinData { covhash: dest.hash(), value: CoinValue(amt), denom: Denom::Sym, additional_data: Default::default() });
        let mut reserved = BTreeMap::new();
        reserved.insert(Denom::Sym, amt);
        let tp2 = TxPlan { outs: tp.outs[1..].to_vec(), ..tp.clone() };
        let mel_slots = self.change_outputs(&mut tx, &tp2, &totals, &reserved);
        let mut b = self.finish(tx, inputs, tp, &mel_slots, 0);
        if tp.data % 16 == 15 && !refstf::stake_regime_legacy(self.w.net, self.height) {
            b.valid = false;
        }
        Some(b)
    }

    fn mutate(&mut self, mut b: Built, tp: &TxPlan) -> (Built, Option<&'static str>, bool) {
        let m = tp.mparam as usize % MUTATIONS.len();
        let name = if self.p.heavy_bias && tp.mutation % 4 == 1 { "extra-heavy-covenant" } else { MUTATIONS[m] };
        let j = (tp.mparam >> 8) as usize;
        let mut dup = false;
        let mut resign = true;
        let mut still_valid = false;
        match name {
            "value+1" => {
                if b.tx.outputs.is_empty() {
                    return (b, None, false);
                }
                let n = b.tx.outputs.len();
                let o = &mut b.tx.outputs[j % n];
                o.value = CoinValue(o.value.0 + 1);
            }
            "value-1" => {
                if b.tx.outputs.is_empty() {
                    return (b, None, false);
                }
                let n = b.tx.outputs.len();
                let o = &mut b.tx.outputs[j % n];
                if o.value.0 == 0 || o.denom == Denom::NewCustom {
                    return (b, None, false);
                }
                o.value = CoinValue(o.value.0 - 1);
            }
            "repeat-input" => {
                if b.tx.inputs.is_empty() {
                    return (b, None, false);
                }
                let c = b.tx.inputs[j % b.tx.inputs.len()];
                b.tx.inputs.push(c);
            }
            "missing-coin" => {
                b.tx.inputs.push(CoinID::new(TxHash(tmelcrypt::hash_single(&tp.mparam.to_le_bytes())), (j % 3) as u8));
            }
            "spent-coin" => {
                if self.w.graveyard.is_empty() {
                    return (b, None, false);
                }
                b.tx.inputs.push(self.w.graveyard[j % self.w.graveyard.len()]);
            }
            "drop-covenant" => {
                if b.tx.covenants.is_empty() {
                    return (b, None, false);
                }
                if j % 3 == 0 {
                    // no covenant at all - and, sometimes, as a faucet (which is exempt from balancing, not from
                    // authorisation)
                    b.tx.covenants.clear();
                    if j % 2 == 0 {
                        b.tx.kind = TxKind::Faucet;
                    }
                } else {
                    b.tx.covenants.pop();
                }
            }
            "garbage-covenant" => {
                if b.tx.covenants.is_empty() {
                    return (b, None, false);
                }
                let n = b.tx.covenants.len();
                b.tx.covenants[j % n] = vec![0xb0, 0x00, 0x01, (j % 251) as u8].into();
            }
            "corrupt-sig" => {
                resign = false;
                let slots: Vec<usize> = b.tx.sigs.iter().enumerate().filter(|(_, s)| !s.is_empty()).map(|(i, _)| i).collect();
                if slots.is_empty() {
                    return (b, None, false);
                }
                let s = slots[j % slots.len()];
                let mut v = b.tx.sigs[s].to_vec();
                let n = v.len();
                v[j % n] ^= 1 << (j % 8);
                b.tx.sigs[s] = v.into();
            }
            "wrong-key-sig" => {
                resign = false;
                if b.tx.sigs.iter().all(|s| s.is_empty()) {
                    return (b, None, false);
                }
                let ins = b.inputs.clone();
                sign_tx(&mut b.tx, &ins, true);
            }
            "over-max-value" => {
                if b.tx.outputs.is_empty() {
                    return (b, None, false);
                }
                let n = b.tx.outputs.len();
                b.tx.outputs[j % n].value = CoinValue(MAX_COINVAL + 1);
            }
            "256-outputs" => {
                let proto = b.tx.outputs.first().cloned().unwrap_or(CoinData {
                    covhash: CovSpec::True.hash(),
                    value: CoinValue(0),
                    denom: Denom::Mel,
                    additional_data: Default::default(),
                });
                while b.tx.outputs.len() < 256 {
                    let mut o = proto.clone();
                    o.value = CoinValue(0);
                    b.tx.outputs.push(o);
                }
            }
            "fee-1" => {
                let mel = b.tx.outputs.iter().position(|o| o.denom == Denom::Mel);
                match mel {
                    Some(i) if b.tx.fee.0 > 0 && b.tx.outputs[i].value.0 < MAX_COINVAL => {
                        let min = refstf::min_fee(&b.tx, self.mult);
                        b.tx.fee = CoinValue(b.tx.fee.0 - 1);
                        b.tx.outputs[i].value = CoinValue(b.tx.outputs[i].value.0 + 1);
                        let min2 = refstf::min_fee(&b.tx, self.mult);
                        still_valid = b.valid && b.tx.fee.0 >= min2.max(min);
                        if b.tx.fee.0 >= min2 && b.tx.fee.0 < min {
                            // weight moved with the re-encoding; treat as not valid-by-construction
                            still_valid = false;
                        }
                    }
                    _ => return (b, None, false),
                }
            }
            "kind-swap" => {
                let kinds = [TxKind::Normal, TxKind::Swap, TxKind::LiqDeposit, TxKind::LiqWithdraw, TxKind::Stake, TxKind::DoscMint, TxKind::Faucet];
                let k = kinds[j % kinds.len()];
                if k == b.tx.kind {
                    return (b, None, false);
                }
                b.tx.kind = k;
            }
            "random-data" => {
                let h = tmelcrypt::hash_single(&tp.mparam.to_le_bytes());
                b.tx.data = h.0[..(j % 33)].to_vec().into();
            }
            "dup-tx" => {
                dup = true;
                resign = false;
            }
            "empty-tx" => {
                b.tx.inputs.clear();
                b.tx.outputs.clear();
                b.tx.covenants.clear();
                b.inputs.clear();
                b.tx.fee = CoinValue(0);
            }
            "input-taken-by-another-tx-of-the-batch" => {
                // prefer a coin that was itself created inside this batch
                let pool: Vec<CoinID> = {
                    let created: Vec<CoinID> = self.batch_spent.iter().copied().filter(|c| self.batch_created.contains(c)).collect();
                    if !created.is_empty() && j % 4 != 0 {
                        created
                    } else {
                        self.batch_spent.clone()
                    }
                };
                // ... or an output that a sibling of this batch sent to the destruction address: it names a
                // transaction of the batch and an index that transaction declares, but no coin
                let pool = if !self.batch_burnt.is_empty() && (j % 3 == 2 || pool.is_empty()) { self.batch_burnt.clone() } else { pool };
                if pool.is_empty() {
                    return (b, None, false);
                }
                b.tx.inputs.push(pool[j % pool.len()]);
            }
            "extra-heavy-covenant" => {
                // an unused covenant whose weight is huge or saturates (nested 65535-iteration loops): it only has to be
                // carried, not run; the fee is raised to cover it when the inputs allow
                let depth = 3 + j % 7;
                let mut ops: Vec<crate::refvm::ROp> = (0..depth).map(|i| crate::refvm::ROp::Loop(65535, (depth - i) as u16)).collect();
                ops.push(crate::refvm::ROp::Noop);
                b.tx.covenants.push(crate::refvm::encode(&ops).unwrap().into());
                let min = refstf::min_fee(&b.tx, self.mult);
                let mel_out = b.tx.outputs.iter().position(|o| o.denom == Denom::Mel && o.value.0 > 0);
                still_valid = false;
                if let Some(i) = mel_out {
                    let have = b.tx.outputs[i].value.0 + b.tx.fee.0;
                    if min <= MAX_COINVAL && have >= min && b.valid {
                        b.tx.outputs[i].value = CoinValue(have - min);
                        b.tx.fee = CoinValue(min);
                        still_valid = refstf::min_fee(&b.tx, self.mult) <= min;
                    }
                }
            }
            "255-maximal-outputs" => {
                // 255 outputs of the maximum coin value in one denomination plus the maximum fee: the declared total
                // reaches 2^128 whatever the inputs are
                let d = if j % 3 == 0 { Denom::Sym } else { Denom::Mel };
                b.tx.outputs.clear();
                for _ in 0..255 {
                    b.tx.outputs.push(CoinData { covhash: CovSpec::True.hash(), value: CoinValue(MAX_COINVAL), denom: d, additional_data: Default::default() });
                }
                b.tx.fee = CoinValue(if j % 2 == 0 { MAX_COINVAL } else { MAX_COINVAL - 1 });
                if j % 5 == 0 {
                    b.tx.inputs.clear();
                    b.inputs.clear();
                    b.tx.covenants.clear();
                }
            }
            "destroy-output" => {
                if b.tx.outputs.is_empty() {
                    return (b, None, false);
                }
                let n = b.tx.outputs.len();
                b.tx.outputs[j % n].covhash = Address(HashVal::default());
                still_valid = b.valid;
                if n <= 255 {
                    self.batch_burnt.push(CoinID::new(b.tx.hash_nosigs(), (j % n) as u8));
                }
            }
            _ => {}
        }
        if resign {
            let ins = b.inputs.clone();
            sign_tx(&mut b.tx, &ins, false);
        }
        b.valid = still_valid;
        (b, Some(name), dup)
    }

    pub fn build(&mut self, tp: &TxPlan) -> Vec<(Transaction, TxMeta)> {
        let kind = weighted(&self.p.kind_w, tp.kind as u32 * 13 + 5);
        let built = match kind {
            0 => self.build_normal(tp, false),
            1 => self.build_faucet(tp),
            2 => self.build_swap(tp),
            3 => self.build_deposit(tp),
            4 => self.build_withdraw(tp),
            5 => self.build_stake(tp),
            6 => self.build_normal(tp, true),
            7 => self.build_doscmint(tp),
            8 => self.build_refaucet(tp),
            _ => None,
        };
        let kind_name = ["normal", "faucet", "swap", "deposit", "withdraw", "stake", "new-token", "doscmint", "replayed-faucet"][kind];
        let (mut b, kind_name) = match built {
            Some(b) => (b, kind_name),
            None => match self.build_normal(tp, false) {
                Some(b) => (b, "normal"),
                None => return vec![],
            },
        };
        let mut mutation = None;
        let mut dup = false;
        if (tp.mutation as u32) < self.p.p_mut {
            let (nb, m, d) = self.mutate(b, tp);
            b = nb;
            mutation = m;
            dup = d;
        }
        let spends_batch = b.tx.inputs.iter().any(|i| self.batch_created.contains(i));
        let meta = TxMeta {
            kind: kind_name.to_string(),
            mutation,
            valid_by_construction: b.valid && (mutation.is_none() || mutation == Some("destroy-output") || mutation == Some("fee-1") || mutation == Some("extra-heavy-covenant")),
            spends_batch_output: spends_batch,
            spelling: b.spelling,
            pool: b.pool.map(|k| format!("{}", k)),
        };
        if mutation.is_none() || mutation == Some("destroy-output") || (mutation == Some("extra-heavy-covenant") && b.valid) {
            self.after(&b);
            self.batch_spent.extend(b.tx.inputs.iter().copied());
        }
        let mut v = vec![(b.tx.clone(), meta.clone())];
        if dup {
            v.push((b.tx, meta));
        }
        v
    }
}

pub fn grandfathered_faucet() -> Transaction {
    Transaction {
        kind: TxKind::Faucet,
        inputs: vec![],
        outputs: vec![CoinData {
            value: CoinValue::from_millions(1001u64),
            denom: Denom::Mel,
            covhash: "t3ew4xh2yts8j1a8vzdfpbkzzvb5gz3sn7s9jw7qc9djrph2wpg52g".parse().unwrap(),
            additional_data: vec![].into(),
        }],
        data: hex::decode("202fb0573b6dfe780f249bec6069bb39dbccb7ed9536c0480e20e1e29050f430").unwrap().into(),
        fee: CoinValue::from_millions(1001u64),
        covenants: vec![],
        sigs: vec![],
    }
}

pub fn shuffle<T>(v: &mut Vec<T>, seed: u32) {
    if seed == 0 || v.len() < 2 {
        return;
    }
    let mut s = seed as u64 | 1;
    for i in (1..v.len()).rev() {
        s = s.wrapping_mul(6364136223846793005).wrapping_add(1442695040888963407);
        let j = ((s >> 33) as usize) % (i + 1);
        v.swap(i, j);
    }
}

/// true if some transaction appears before a transaction whose output it spends
pub fn child_before_parent(txs: &[Transaction]) -> bool {
    let pos: BTreeMap<TxHash, usize> = txs.iter().enumerate().map(|(i, t)| (t.hash_nosigs(), i)).collect();
    txs.iter().enumerate().any(|(i, t)| t.inputs.iter().any(|inp| pos.get(&inp.txhash).map_or(false, |p| *p > i)))
}

pub fn has_dependency(txs: &[Transaction]) -> bool {
    let hs: std::collections::BTreeSet<TxHash> = txs.iter().map(|t| t.hash_nosigs()).collect();
    txs.iter().any(|t| t.inputs.iter().any(|i| hs.contains(&i.txhash)))
}

// ---------------------------------------------------------------------------------------------
// observation points

pub struct BatchObs<'a> {
    pub pre_state: &'a crate::world::Unsealed,
    pub pre_view: &'a View,
    pub pre: &'a Snap,
    pub txs: &'a [Transaction],
    pub metas: &'a [TxMeta],
    pub outcome: &'a Outcome<()>,
    /// what the rejected call left in the state object (rejection must be a no-op)
    pub rejected_view: Option<&'a View>,
    pub post_view: &'a View,
    pub post: &'a Snap,
    pub verdict: &'a Verdict,
    pub ref_post: Option<&'a Snap>,
}

pub struct SealObs<'a> {
    pub pre: &'a Snap,
    pub action: Option<ProposerAction>,
    pub sealed: &'a Sealed,
    pub post: &'a Snap,
    pub ref_post: &'a Snap,
    pub trace: &'a SealTrace,
    /// true when this block was sealed right after a restart / was empty etc.
    pub txs_in_block: usize,
    /// the sealed state this block extends (None for the first block after genesis)
    pub parent: Option<&'a Sealed>,
    /// header().fee_pool of the same block sealed without a proposer action (only computed when an action was given)
    pub noaction_fee_pool: Option<u128>,
    pub pre_state: &'a crate::world::Unsealed,
}

#[allow(unused_variables)]
pub trait Monitor {
    /// the lineage was re-based at another height (fabricated parent): anything tracked along the chain starts anew
    fn on_teleport(&mut self, w: &World, st: &mut Stats) -> Check {
        Ok(())
    }
    fn on_start(&mut self, w: &World, st: &mut Stats) -> Check {
        Ok(())
    }
    /// called before a batch is applied to the world (nothing of it has been validated in this process yet)
    fn before_batch(&mut self, w: &World, txs: &[Transaction], st: &mut Stats) -> Check {
        Ok(())
    }
    fn on_batch(&mut self, w: &World, ob: &BatchObs, st: &mut Stats) -> Check {
        Ok(())
    }
    fn on_seal(&mut self, w: &World, ob: &SealObs, st: &mut Stats) -> Check {
        Ok(())
    }
    fn on_restart(&mut self, w: &World, before: &Sealed, after: &Sealed, st: &mut Stats) -> Check {
        Ok(())
    }
    fn on_panic(&mut self, w: &World, site: &str, info: &PanicInfo, st: &mut Stats) -> Check {
        st.exclude(&format!("panicked-in-{}", site));
        Ok(())
    }
    fn on_end(&mut self, w: &World, st: &mut Stats) -> Check {
        Ok(())
    }
}

pub fn trace_on() -> bool {
    thread_local! { static T: bool = std::env::var("MV_TRACE").is_ok(); }
    T.with(|t| *t)
}

pub fn mk_action(a: Option<(i8, u8)>) -> Option<ProposerAction> {
    a.map(|(d, dest)| ProposerAction {
        fee_multiplier_delta: d,
        // one proposer in sixteen burns the reward
        reward_dest: if dest % 16 == 15 { Address(HashVal::default()) } else { CovSpec::from_sel(dest).hash() },
    })
}

/// Runs a plan. Stops at the first violation reported by the monitor.
pub fn run_plan(plan: &Plan, profile: &Profile, mon: &mut dyn Monitor, st: &mut Stats, shard: usize) -> Check {
    let g = genesis(&plan.cfg, profile);
    let mut w = World::new(g, shard);
    // half of the histories are run like a block builder that keeps using the state object a rejected batch was
    // offered to (the other half continues from a copy taken before the call)
    w.keep_rejected_object = plan.cfg.net % 2 == 1;
    let mut snap = w.snap();
    mon.on_start(&w, st)?;
    let mut txs_in_block = 0usize;
    if (profile.start_past_legacy || (profile.past_legacy_half && (plan.cfg.val as u32 + plan.cfg.denom as u32) % 2 == 1)) && refstf::legacy_net(w.net) {
        let barrier = if w.net == NetID::Mainnet { 829_999 } else { 499 };
        if !teleport(&mut w, barrier, st) {
            return Ok(());
        }
        // cross the TIP-906 activation honestly
        for _ in 0..2 {
            match w.seal(None) {
                Outcome::Ok(_) => {}
                _ => return Ok(()),
            }
        }
        let in_window = profile.stake_window_start && plan.cfg.val % 3 == 0;
        let target = if in_window { 899_992 + (plan.cfg.val as u64 % 7) } else { 979_000 };
        if !teleport(&mut w, target, st) {
            return Ok(());
        }
        snap = w.snap();
        st.class(if in_window { "started-just-below-the-lock-switch-at-900000" } else { "started-past-legacy-heights" });
    }
    if profile.start_in_legacy_window && w.net == NetID::Mainnet {
        let target = [179_999u64, 180_001, 199_999, 400_000, 499_999, 829_990][plan.cfg.val as usize % 6];
        if !teleport(&mut w, target, st) {
            return Ok(());
        }
        snap = w.snap();
        st.class("started-in-legacy-window");
    }
    if profile.warp && w.net == NetID::Testnet {
        // fast-forward with empty blocks to just below the testnet activation height
        let target = match plan.cfg.val % 4 {
            0 => 0,
            1 => 496,
            2 => 498,
            _ => 499,
        };
        for _ in 0..target {
            match w.seal(None) {
                Outcome::Ok(_) => {}
                _ => return Ok(()),
            }
        }
        if target > 0 {
            st.class("warped-to-activation");
            snap = w.snap();
        }
    }
    if profile.low_dosc_start && plan.cfg.fee_pool % 3 == 0 {
        if let Outcome::Ok(s0) = w.seal(None) {
            let mut blk = s0.to_block();
            blk.header.dosc_speed = [10, 5_000, 3_000_000_011, 10_000_000_000_019][plan.cfg.val as usize % 4];
            let r = Sealed::from_block(&blk, &s0.raw_stakes(), &w.db);
            let hd = r.header();
            w.headers.insert(hd.height.0, hd);
            w.cur = r.next_unsealed();
            w.last_sealed = Some(r);
            snap = w.snap();
            st.class("started-with-low-dosc-speed");
        }
    }
    if profile.seed_funds && w.net != NetID::Mainnet {
        let mut tx = Transaction::new(TxKind::Faucet);
        let t = CovSpec::True.hash();
        for (d, v) in [(Denom::Sym, 1u128 << 70), (Denom::Erg, 1u128 << 70), (Denom::NewCustom, 1u128 << 70), (Denom::Sym, 1u128 << 40), (Denom::Erg, 1u128 << 40)] {
            tx.outputs.push(CoinData { covhash: t, value: CoinValue(v), denom: d, additional_data: Default::default() });
        }
        let nugget = (3000u128.saturating_mul(snap.fee_mult) >> 16).saturating_mul(8).max(50_000_000).min(1u128 << 100);
        for _ in 0..profile.nuggets.max(4) {
            tx.outputs.push(CoinData { covhash: t, value: CoinValue(nugget), denom: Denom::Mel, additional_data: Default::default() });
        }
        tx.data = b"seed funds".to_vec().into();
        tx.fee = CoinValue(((12_000u128 + 1_100 * tx.outputs.len() as u128).saturating_mul(snap.fee_mult) >> 16).min(1u128 << 110));
        let meta = TxMeta { kind: "faucet".into(), mutation: None, valid_by_construction: true, spends_batch_output: false, spelling: None, pool: None };
        if !apply_and_observe(&mut w, &mut snap, vec![tx], vec![meta], mon, st, &mut txs_in_block)? {
            return mon.on_end(&w, st);
        }
    }
    if profile.lead_blocks > 0 {
        let n = (plan.cfg.cov as u32 * 7 + plan.cfg.denom as u32) % (profile.lead_blocks as u32 + 1);
        for _ in 0..n {
            if !do_seal(&mut w, &mut snap, None, mon, st, &mut txs_in_block)? {
                return mon.on_end(&w, st);
            }
        }
    }
    for step in plan.steps.iter() {
        match step {
            Step::Batch(tps, order) => {
                let (mut txs, mut metas): (Vec<Transaction>, Vec<TxMeta>) = {
                    let mut b = Builder::new(&w, profile, &snap);
                    let mut out = vec![];
                    for tp in tps.iter() {
                        out.extend(b.build(tp));
                    }
                    out.into_iter().unzip()
                };
                if txs.is_empty() {
                    continue;
                }
                shuffle(&mut txs, *order);
                shuffle(&mut metas, *order);
                if !apply_and_observe(&mut w, &mut snap, txs, metas, mon, st, &mut txs_in_block)? {
                    break;
                }
            }
            Step::Seal(a) => {
                let action = mk_action(*a);
                if !do_seal(&mut w, &mut snap, action, mon, st, &mut txs_in_block)? {
                    break;
                }
            }
            Step::Empty(n) => {
                let mut ok = true;
                for _ in 0..*n {
                    if !do_seal(&mut w, &mut snap, None, mon, st, &mut txs_in_block)? {
                        ok = false;
                        break;
                    }
                }
                if !ok {
                    break;
                }
            }
            Step::Admit(tps) => {
                if !profile.mempool {
                    continue;
                }
                let built: Vec<(Transaction, TxMeta)> = {
                    let mut b = Builder::new(&w, profile, &snap);
                    let mut out = vec![];
                    for tp in tps.iter() {
                        out.extend(b.build(tp));
                    }
                    out
                };
                for (tx, _) in built {
                    w.reg.tx(&tx);
                    // the admission check runs on a copy that is thrown away
                    let mut scratch = w.cur.clone();
                    let pool = w.pool.clone();
                    let ok = matches!(crate::util::catch(|| pool.install(|| scratch.apply_tx(&tx))), Ok(Ok(())));
                    if ok && w.mempool.len() < 8 {
                        w.mempool.push(tx);
                        st.class("admitted-to-mempool");
                    }
                }
            }
            Step::Include(n) => {
                if !profile.mempool || w.mempool.is_empty() {
                    continue;
                }
                let take = (*n as usize).min(w.mempool.len());
                let mut txs: Vec<Transaction> = w.mempool.drain(..take).collect();
                // a re-submitted transaction may arrive with other signature bytes than the copy that passed the
                // admission check (same hash_nosigs): stripped, corrupted, or padded
                let mut metas: Vec<TxMeta> = vec![];
                for (i, t) in txs.iter_mut().enumerate() {
                    let roll = (*n as usize).wrapping_add(i).wrapping_add((t.fee.0 % 1000) as usize) % 4;
                    let mut mutation = None;
                    if roll == 1 && t.sigs.iter().any(|s| !s.is_empty()) {
                        for s in t.sigs.iter_mut() {
                            if !s.is_empty() {
                                let mut v = s.to_vec();
                                v[5] ^= 0x20;
                                *s = v.into();
                            }
                        }
                        mutation = Some("resubmitted-with-corrupted-sigs");
                    } else if roll == 2 && !t.sigs.is_empty() {
                        t.sigs.clear();
                        mutation = Some("resubmitted-without-sigs");
                    } else if roll == 3 {
                        t.sigs.push(vec![0u8; 64].into());
                        mutation = Some("resubmitted-with-extra-sig");
                    }
                    metas.push(TxMeta {
                        kind: format!("{:?}-from-mempool", t.kind).to_lowercase(),
                        mutation,
                        valid_by_construction: false,
                        spends_batch_output: false,
                        spelling: None,
                        pool: None,
                    });
                }
                st.class("mempool-batch-included");
                if !apply_and_observe(&mut w, &mut snap, txs, metas, mon, st, &mut txs_in_block)? {
                    break;
                }
            }
            Step::Teleport(_) | Step::TeleportTo(_) => {
                if profile.p_teleport == 0 || txs_in_block > 0 {
                    continue;
                }
                let target = match step {
                    Step::Teleport(c) => teleport_target(w.net, snap.height, *c),
                    Step::TeleportTo(h) => {
                        let mut t = *h as u64 % 2_000_000;
                        let barrier = match w.net {
                            NetID::Mainnet => Some(829_999u64),
                            NetID::Testnet => Some(499u64),
                            _ => None,
                        };
                        if let Some(b) = barrier {
                            if snap.height <= b + 1 && t > b {
                                t = b;
                            }
                        }
                        if t > snap.height + 1 {
                            Some(t)
                        } else {
                            None
                        }
                    }
                    _ => None,
                };
                if let Some(target) = target {
                    if !teleport(&mut w, target, st) {
                        break;
                    }
                    snap = w.snap();
                    st.class("teleported");
                    mon.on_teleport(&w, st)?;
                }
            }
            Step::Restart => {
                if txs_in_block > 0 {
                    // a node restarts from a sealed block; pending transactions of an open block are not persisted
                    continue;
                }
                if let Some(s) = w.last_sealed.clone() {
                    let db = w.db.clone();
                    let r = crate::util::catch(|| {
                        let blk = s.to_block();
                        let stakes = s.raw_stakes();
                        let r = Sealed::from_block(&blk, &stakes, &db);
                        let n = r.next_unsealed();
                        (r, n)
                    });
                    match r {
                        Ok((r, n)) => {
                            mon.on_restart(&w, &s, &r, st)?;
                            if profile.restart_replaces {
                                w.cur = n;
                                w.last_sealed = Some(r);
                                snap = w.snap();
                            }
                        }
                        Err(p) => {
                            mon.on_panic(&w, "restart", &p, st)?;
                            break;
                        }
                    }
                }
            }
        }
    }
    if st.want_sample() && w.trace.len() >= 7 {
        let net = format!("{:?}", w.net);
        let tr = w.trace.clone();
        st.sample(|| serde_json::json!({"network": net, "executed": tr}));
    }
    mon.on_end(&w, st)
}

/// Applies a batch to the world, updates the wallet, and shows the result to the monitor.
fn apply_and_observe(
    w: &mut World,
    snap: &mut Snap,
    txs: Vec<Transaction>,
    metas: Vec<TxMeta>,
    mon: &mut dyn Monitor,
    st: &mut Stats,
    txs_in_block: &mut usize,
) -> Result<bool, crate::evidence::Violation> {
    {
                for tx in txs.iter() {
                    w.reg.tx(tx);
                    if tx.kind == TxKind::Faucet && !w.faucets_seen.contains(tx) && w.faucets_seen.len() < 16 {
                        w.faucets_seen.push(tx.clone());
                    }
                }
                let pre_state = w.cur.clone();
                let pre_view = w.view();
                let pre = decode_view(&pre_view, &w.reg);
                let (verdict, ref_post) = {
                    let hdr = |h: u64| w.header_at(h);
                    let ctx = RefCtx { header_at: &hdr, max_steps: 200_000 };
                    refstf::apply_batch(&pre, &txs, &ctx)
                };
                mon.before_batch(w, &txs, st)?;
                let (outcome, rejected_view) = w.apply_batch_keep(&txs);
                let post_view = w.view();
                let post = decode_view(&post_view, &w.reg);
                if let Outcome::Ok(()) = outcome {
                    *txs_in_block += txs.len();
                    // wallet bookkeeping
                    let spent: std::collections::BTreeSet<CoinID> = txs.iter().flat_map(|t| t.inputs.iter().copied()).collect();
                    let mut keep = vec![];
                    for c in std::mem::take(&mut w.wallet) {
                        if spent.contains(&c.id) {
                            w.graveyard.push(c.id);
                        } else {
                            keep.push(c);
                        }
                    }
                    w.wallet = keep;
                    for tx in txs.iter() {
                        for (id, cdh) in refstf::created_coins(tx, pre.height) {
                            if spent.contains(&id) {
                                w.graveyard.push(id);
                                continue;
                            }
                            if let Some(spec) = w.spec_for(cdh.coin_data.covhash) {
                                if w.wallet.len() < 48 {
                                    w.wallet.push(WCoin { id, cdh, cov: spec });
                                }
                            }
                        }
                        if tx.kind == TxKind::Stake {
                            if let Ok(doc) = stdcode::deserialize::<StakeDoc>(&tx.data) {
                                w.staked_txs.push((tx.hash_nosigs(), doc, CovSpec::True));
                            }
                        }
                        if tx.kind == TxKind::Faucet {
                            for o in tx.outputs.iter() {
                                let e = w.issued.entry(o.denom).or_insert(0);
                                *e = e.saturating_add(o.value.0);
                            }
                            let e = w.issued.entry(Denom::Mel).or_insert(0);
                            *e = e.saturating_add(tx.fee.0);
                        }
                        for o in tx.outputs.iter() {
                            if o.denom == Denom::NewCustom {
                                w.custom_denoms.push(Denom::Custom(tx.hash_nosigs()));
                            }
                        }
                    }
                }
                if w.trace.len() < 40 {
                    let kinds: Vec<String> = metas.iter().map(|m| match m.mutation { Some(mu) => format!("{}({})", m.kind, mu), None => m.kind.clone() }).collect();
                    let res = match &outcome {
                        Outcome::Ok(()) => "accepted".to_string(),
                        Outcome::Rejected(e) => format!("rejected: {}", e.split('(').next().unwrap_or("")),
                        Outcome::Panicked(_) => "panicked".to_string(),
                    };
                    w.trace.push(format!("h{} batch [{}] {}", pre.height, kinds.join(", "), res));
                }
                if trace_on() {
                    eprintln!("[h{}] batch of {}: {:?}", pre.height, txs.len(), outcome);
                    for (t, m) in txs.iter().zip(metas.iter()) {
                        eprintln!(
                            "     {:?} {} ins={} outs={:?} fee={} data={} mut={:?} spelling={:?}",
                            t.kind,
                            t.hash_nosigs(),
                            t.inputs.len(),
                            t.outputs.iter().map(|o| format!("{}:{}", o.denom, o.value.0)).collect::<Vec<_>>(),
                            t.fee.0,
                            hex::encode(&t.data[..t.data.len().min(80)]),
                            m.mutation,
                            m.spelling
                        );
                    }
                    eprintln!("     ref verdict: reject={:?} unspecified={:?}", verdict.reject, verdict.unspecified);
                }
                if let Outcome::Panicked(p) = &outcome {
                    mon.on_panic(w, "apply_tx_batch", p, st)?;
                }
                let ob = BatchObs {
                    pre_state: &pre_state,
                    pre_view: &pre_view,
                    pre: &pre,
                    txs: &txs,
                    metas: &metas,
                    outcome: &outcome,
                    rejected_view: rejected_view.as_ref(),
                    post_view: &post_view,
                    post: &post,
                    verdict: &verdict,
                    ref_post: ref_post.as_ref(),
                };
                mon.on_batch(w, &ob, st)?;
                *snap = post;
    }
    Ok(true)
}

fn do_seal(w: &mut World, snap: &mut Snap, action: Option<ProposerAction>, mon: &mut dyn Monitor, st: &mut Stats, txs_in_block: &mut usize) -> Result<bool, crate::evidence::Violation> {
    let h = snap.height;
    w.reg.coin(CoinID::proposer_reward(BlockHeight(h)));
    if let Some(a) = action {
        w.reg.covhash(a.reward_dest);
    }
    let pre = decode_view(&w.view(), &w.reg);
    let pre_state = w.cur.clone();
    let parent = w.last_sealed.clone();
    let noaction_fee_pool = if action.is_some() {
        let c = w.cur.clone();
        let pool = &w.pool;
        crate::util::catch(|| pool.install(|| c.seal(None).header().fee_pool.0)).ok()
    } else {
        None
    };
    let (ref_post, trace) = refstf::seal(&pre, action);
    if trace_on() {
        eprintln!("[h{}] seal action={:?} pools before: {:?}", h, action, pre.pools);
    }
    match w.seal(action) {
        Outcome::Ok(sealed) => {
            let post = decode_view(&sealed.verif_view(), &w.reg);
            if trace_on() {
                eprintln!("     pools after: {:?}", post.pools);
            }
            w.refresh_wallet(&sealed);
            // coins that appear at sealing: proposer reward, second coin of a withdrawal
            if let Some(a) = action {
                if let Some(spec) = w.spec_for(a.reward_dest) {
                    let id = CoinID::proposer_reward(BlockHeight(h));
                    if let Some(cdh) = sealed.coin(id) {
                        if w.wallet.len() < 48 {
                            w.wallet.push(WCoin { id, cdh, cov: spec });
                        }
                    }
                }
            }
            for tx in pre.txs.iter() {
                if tx.kind == TxKind::LiqWithdraw && tx.outputs.len() == 1 {
                    let id = CoinID::new(tx.hash_nosigs(), 1);
                    if let (Some(cdh), Some(spec)) = (sealed.coin(id), w.spec_for(tx.outputs[0].covhash)) {
                        if !w.wallet.iter().any(|c| c.id == id) && w.wallet.len() < 48 {
                            w.wallet.push(WCoin { id, cdh, cov: spec });
                        }
                    }
                }
            }
            if w.trace.len() < 40 {
                w.trace.push(format!(
                    "h{} seal{} -> {} swap / {} deposit / {} withdrawal pool(s) settled",
                    h,
                    if action.is_some() { " with proposer action" } else { "" },
                    trace.swaps.len(),
                    trace.deposits.len(),
                    trace.withdrawals.len()
                ));
            }
            let ob = SealObs {
                pre: &pre,
                action,
                sealed: &sealed,
                post: &post,
                ref_post: &ref_post,
                trace: &trace,
                txs_in_block: *txs_in_block,
                parent: parent.as_ref(),
                noaction_fee_pool,
                pre_state: &pre_state,
            };
            *txs_in_block = 0;
            mon.on_seal(w, &ob, st)?;
            *snap = w.snap();
            Ok(true)
        }
        Outcome::Panicked(p) => {
            mon.on_panic(w, "seal", &p, st)?;
            Ok(false)
        }
        Outcome::Rejected(_) => Ok(false),
    }
}

/// Boundary heights worth visiting; always lands one block below the boundary and never jumps across
/// the one-off TIP-906 initialisation (830 000 on mainnet, 500 on testnet).
pub fn teleport_target(net: NetID, cur: u64, c: u8) -> Option<u64> {
    let list: &[u64] = match net {
        NetID::Mainnet => &[42_699, 179_999, 199_999, 499_999, 829_999, 899_999, 949_999, 978_391, 999_999, 1_047_999, 1_199_999, 1_399_999, 1_599_999, 1_949_999],
        NetID::Testnet => &[499, 199_999, 399_999, 499_999, 899_999, 978_391, 999_999, 1_199_999, 1_399_999, 1_599_999],
        _ => &[199_999, 399_999, 599_999, 799_999, 999_999, 1_199_999, 1_949_999],
    };
    let mut t = list[c as usize % list.len()];
    if c >= 160 {
        // not a boundary but some height anywhere below 2 000 000 (rules tied to a window of heights that is not an
        // activation height are only met by sampling heights); derived from the current height too, so that the 96
        // selector values give far more than 96 targets
        let x = crate::util::h64(&[cur.to_le_bytes(), (c as u64).to_le_bytes()].concat());
        t = x % 2_000_000;
    }
    let barrier = match net {
        NetID::Mainnet => Some(829_999u64),
        NetID::Testnet => Some(499u64),
        _ => None,
    };
    // `cur` is the height of the block being built. The one-off initialisation happens when block b+1 is opened, and
    // a jump re-bases the last *sealed* state, so that one must already be past it: cur >= b+2
    if let Some(b) = barrier {
        if cur <= b + 1 && t > b {
            t = b;
        }
    }
    // land so that the *next* unsealed block has height t; need strictly forward and room for the synthetic parent
    if t > cur + 1 {
        Some(t)
    } else {
        // the next boundary above the current height
        list.iter().copied().find(|x| *x > cur + 1).filter(|x| barrier.map_or(true, |b| !(cur <= b + 1 && *x > b)))
    }
}

/// Re-bases the last sealed state at height `target - 1` so that the next block to be built has height `target`.
pub fn teleport(w: &mut World, target: u64, st: &mut Stats) -> bool {
    use melstf::SmtMapping;
    let s = match w.last_sealed.clone() {
        Some(s) => s,
        None => {
            // need one sealed block first
            match w.seal(None) {
                Outcome::Ok(s) => s,
                _ => return false,
            }
        }
    };
    let new_h = target - 1;
    if new_h <= s.header().height.0 + 1 {
        return true;
    }
    let db = w.db.clone();
    let r = crate::util::catch(|| {
        let blk = s.to_block();
        let mut hist: SmtMapping<novasmt::InMemoryCas, BlockHeight, melstructs::Header> = SmtMapping::new(s.raw_history_smt());
        let mut fake_prev = blk.header;
        fake_prev.height = BlockHeight(new_h - 1);
        hist.insert(BlockHeight(new_h - 1), fake_prev);
        let mut header = blk.header;
        header.height = BlockHeight(new_h);
        header.history_hash = hist.root_hash();
        header.previous = fake_prev.hash();
        let blk2 = melstructs::Block { header, transactions: blk.transactions.clone(), proposer_action: blk.proposer_action };
        let r = Sealed::from_block(&blk2, &s.raw_stakes(), &db);
        let hd = r.header();
        let n = r.next_unsealed();
        (r, hd, n, fake_prev)
    });
    match r {
        Ok((r, hd, n, fake_prev)) => {
            w.headers.insert(new_h - 1, fake_prev);
            w.headers.insert(new_h, hd);
            w.last_sealed = Some(r);
            w.cur = n;
            // coins keep their creation heights; refresh nothing else
            let _ = st;
            true
        }
        Err(_) => false,
    }
}
