//! Shared helpers: panic capture keyed by shard, hashing, deterministic keys.
use std::panic::{catch_unwind, AssertUnwindSafe};
use std::sync::Mutex;

use tmelcrypt::{Ed25519PK, Ed25519SK};

#[derive(Clone, Debug, serde::Serialize)]
pub struct PanicInfo {
    pub location: String,
    pub message: String,
    /// innermost frames inside the code under test (melstf / melvm / melstructs / melpow), from the backtrace
    pub callers: Vec<String>,
}

impl PanicInfo {
    /// Signature used to key C09 findings: file:line + a coarse message class.
    pub fn signature(&self) -> String {
        let loc = self
            .location
            .rsplit_once(':')
            .map(|(a, _col)| a.to_string())
            .unwrap_or_else(|| self.location.clone());
        // strip registry path prefix
        let loc = match loc.find("/registry/src/") {
            Some(i) => {
                let rest = &loc[i + "/registry/src/".len()..];
                rest.split_once('/').map(|(_, r)| r.to_string()).unwrap_or(rest.to_string())
            }
            None => loc.trim_start_matches("/repo/").to_string(),
        };
        let via = match self.callers.first() {
            Some(c) if !loc.starts_with("src/") && !loc.starts_with("lib/") => format!("<-{}", c),
            _ => String::new(),
        };
        format!("panic@{}{}|{}", loc, via, msg_class(&self.message))
    }
}

fn msg_class(m: &str) -> String {
    let m = m.to_lowercase();
    for (pat, cls) in [
        ("overflow", "overflow"),
        ("divide by zero", "div0"),
        ("division by zero", "div0"),
        ("denominator == 0", "div0"),
        ("zero denominator", "div0"),
        ("out of bounds", "oob"),
        ("out of range", "oob"),
        ("unwrap", "unwrap"),
        ("assertion", "assert"),
        ("expect", "expect"),
    ] {
        if m.contains(pat) {
            return cls.to_string();
        }
    }
    m.chars().take(40).collect()
}

const NSLOTS: usize = 256;
static SLOTS: std::sync::OnceLock<Vec<Mutex<Vec<PanicInfo>>>> = std::sync::OnceLock::new();

fn slots() -> &'static Vec<Mutex<Vec<PanicInfo>>> {
    SLOTS.get_or_init(|| (0..NSLOTS).map(|_| Mutex::new(Vec::new())).collect())
}

/// thread names are "s<N>" (shard) or "s<N>-r<i>" (that shard's rayon workers); anything else maps to the last slot
fn shard_slot() -> usize {
    let t = std::thread::current();
    let n = t.name().unwrap_or("");
    let head = n.split('-').next().unwrap_or("");
    head.strip_prefix('s')
        .and_then(|x| x.parse::<usize>().ok())
        .map(|x| x % (NSLOTS - 1))
        .unwrap_or(NSLOTS - 1)
}

pub fn install_panic_hook() {
    let _ = slots();
    std::panic::set_hook(Box::new(|info| {
        let loc = info
            .location()
            .map(|l| format!("{}:{}:{}", l.file(), l.line(), l.column()))
            .unwrap_or_else(|| "?".into());
        let msg = if let Some(s) = info.payload().downcast_ref::<&str>() {
            s.to_string()
        } else if let Some(s) = info.payload().downcast_ref::<String>() {
            s.clone()
        } else {
            "<non-string panic>".to_string()
        };
        if std::env::var("MV_SHOW_PANICS").is_ok() {
            eprintln!("[panic] {} :: {}", loc, msg);
        }
        let mut g = slots()[shard_slot()].lock().unwrap_or_else(|e| e.into_inner());
        // keep every panic of a catch scope (rayon may produce several; the code under test may catch some itself)
        if g.len() < 16 {
            let bt = std::backtrace::Backtrace::force_capture().to_string();
            let mut callers = vec![];
            for line in bt.lines() {
                let l = line.trim();
                if let Some(rest) = l.strip_prefix("at ") {
                    let short = if let Some(r) = rest.strip_prefix("/repo/") {
                        Some(r.to_string())
                    } else if let Some(i) = rest.find("/registry/src/") {
                        let r = &rest[i + "/registry/src/".len()..];
                        let r = r.split_once('/').map(|x| x.1).unwrap_or(r);
                        if r.starts_with("melstructs") || r.starts_with("melpow") || r.starts_with("novasmt") {
                            Some(r.to_string())
                        } else {
                            None
                        }
                    } else {
                        None
                    };
                    if let Some(sh) = short {
                        // drop the column
                        let sh = sh.rsplit_once(':').map(|x| x.0.to_string()).unwrap_or(sh);
                        if !callers.contains(&sh) && callers.len() < 4 {
                            callers.push(sh);
                        }
                    }
                }
            }
            if std::env::var("MV_SHOW_PANICS").is_ok() {
                eprintln!("[panic callers] {:?}", callers);
            }
            g.push(PanicInfo { location: loc, message: msg, callers });
        }
    }));
}

/// Runs `f`, converting a panic (in this thread or in the shard's rayon workers) into Err.
pub fn catch<R>(f: impl FnOnce() -> R) -> Result<R, PanicInfo> {
    let slot = shard_slot();
    slots()[slot].lock().unwrap_or_else(|e| e.into_inner()).clear();
    match catch_unwind(AssertUnwindSafe(f)) {
        Ok(r) => Ok(r),
        Err(payload) => {
            let msg = if let Some(s) = payload.downcast_ref::<&str>() {
                s.to_string()
            } else if let Some(s) = payload.downcast_ref::<String>() {
                s.clone()
            } else {
                "<non-string panic>".into()
            };
            let mut got = std::mem::take(&mut *slots()[slot].lock().unwrap_or_else(|e| e.into_inner()));
            // the panic that propagated is the one whose message matches the payload
            let pos = got.iter().rposition(|p| p.message == msg).or_else(|| if got.is_empty() { None } else { Some(got.len() - 1) });
            Err(match pos {
                Some(i) => got.swap_remove(i),
                None => PanicInfo { location: "?".into(), message: msg, callers: vec![] },
            })
        }
    }
}

pub fn h64(bytes: &[u8]) -> u64 {
    let h = blake3::hash(bytes);
    u64::from_le_bytes(h.as_bytes()[..8].try_into().unwrap())
}

pub fn h64_of<T: serde::Serialize>(t: &T) -> u64 {
    h64(&serde_json::to_vec(t).unwrap_or_default())
}

/// Deterministic Ed25519 key pair number `i` (never touches the OS RNG).
pub fn key(i: usize) -> (Ed25519PK, Ed25519SK) {
    let seed = blake3::hash(format!("melstf-verif-key-{}", i).as_bytes());
    let sk = ed25519_consensus::SigningKey::from(*seed.as_bytes());
    let pk = sk.verification_key();
    let mut full = [0u8; 64];
    full[..32].copy_from_slice(seed.as_bytes());
    full[32..].copy_from_slice(pk.as_bytes());
    (Ed25519PK(*pk.as_bytes()), Ed25519SK(full))
}

pub fn hex(b: &[u8]) -> String {
    hex::encode(b)
}

/// Maps a 16-bit selector monotonically onto 0..len (so proptest shrinking moves toward index 0).
pub fn sel(i: u16, len: usize) -> usize {
    if len == 0 {
        return 0;
    }
    ((i as usize) * len) >> 16
}
