#!/bin/bash
# tools_make_regress.sh <label> <fix-commit> <ID> [<ID> ...]
# Produces committed regression cases for a repaired defect: reverts the fix in a scratch clone of /repo (never in
# /repo), runs the quick check of each given property against it, and files every replay the check writes under
# /verif/regress/<ID>/<label>-<n>.json. Afterwards each filed case is replayed against the real /repo tree and must
# pass there (a case that still fails on the repaired tree is deleted and reported).
set -u
LABEL="$1"; COMMIT="$2"; shift 2
SCR="${REG_SCRATCH:-/tmp/regrun}"
mkdir -p "$SCR"
if [ ! -d "$SCR/repo" ]; then git clone -q /repo "$SCR/repo"; fi
git -C "$SCR/repo" fetch -q origin; git -C "$SCR/repo" checkout -q -- . ; git -C "$SCR/repo" reset -q --hard "$(git -C /repo rev-parse HEAD)"
cp /repo/Cargo.lock "$SCR/repo/"
if ! git -C "$SCR/repo" -c user.name=x -c user.email=x@x revert --no-commit "$COMMIT" >/dev/null 2>&1; then
  echo "$LABEL: revert of $COMMIT conflicts with later commits - skipped"; git -C "$SCR/repo" revert --abort 2>/dev/null; git -C "$SCR/repo" reset -q --hard; exit 3
fi
mkdir -p "$SCR/engine" "$SCR/out"
rsync -a --delete --exclude target --exclude build.log /verif/engine/ "$SCR/engine/"
sed -i "s|path = \"/repo|path = \"$SCR/repo|g" "$SCR/engine/Cargo.toml"
cp /verif/known_findings.json "$SCR/out/"; rm -rf "$SCR/out/pinned" "$SCR/out/regress"; cp -r /verif/pinned "$SCR/out/pinned"
export CARGO_NET_OFFLINE=true VERIF_ROOT="$SCR/out"
(cd "$SCR/engine" && cargo build --release --offline >"$SCR/build.log" 2>&1) || { echo "$LABEL: engine does not build against the reverted tree"; tail -5 "$SCR/build.log"; exit 2; }
for ID in "$@"; do
  rm -rf "$SCR/out/replays" "$SCR/out/evidence"
  (cd "$SCR/out" && timeout 1500 "$SCR/engine/target/release/mv" check "$ID" --tier quick >"$SCR/out/check.log" 2>&1); RC=$?
  N=0
  for f in "$SCR/out/replays/$ID"/*.json; do
    [ -f "$f" ] || continue
    N=$((N+1)); [ $N -gt 3 ] && break
    mkdir -p "/verif/regress/$ID"; DEST="/verif/regress/$ID/$LABEL-$N.json"; cp "$f" "$DEST"
    # must pass on the repaired tree
    if ! (cd /verif && VERIF_ROOT=/verif /verif/engine/target/release/mv replay "$ID" "$DEST" 2>&1 | grep -q "replay passes"); then
      echo "$LABEL $ID: case $N still fails on the repaired tree - not filed"; rm -f "$DEST"
    else
      echo "$LABEL $ID: filed $DEST ($(grep -o '"signature": *"[^"]*"' "$DEST" | head -1 | cut -c1-120))"
    fi
  done
  [ $N = 0 ] && echo "$LABEL $ID: rc=$RC, no replay produced"
done
git -C "$SCR/repo" reset -q --hard
