#!/bin/bash
# ./run.sh <PROPERTY-ID> <quick|thorough>
# Rebuilds the engine against /repo's current working tree (path dependency, hooks on via --cfg melstf_verif),
# runs the check, writes evidence/<ID>.json. Exit 0 held / 1 violation / 2 inconclusive (build failure, watchdog).
set -u
ID="$1"; TIER="${2:-quick}"
HERE="$(cd "$(dirname "$0")" && pwd)"
export VERIF_ROOT="$HERE"
export CARGO_NET_OFFLINE=true
cd "$HERE/engine" || exit 2
if ! cargo build --release --offline >"$HERE/engine/build.log" 2>&1; then
  echo "INCONCLUSIVE property=$ID engine build failed (see engine/build.log)"; tail -30 "$HERE/engine/build.log"; exit 2
fi
cd "$HERE" || exit 2
exec "$HERE/engine/target/release/mv" check "$ID" --tier "$TIER"
