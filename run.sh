#!/bin/bash
# ./run.sh <PROPERTY-ID> <quick|thorough>
# Rebuilds the engine against /repo's current working tree (path dependency, hooks on via --cfg melstf_verif),
# runs the check, writes evidence/<ID>.json. Exit 0 held / 1 violation / 2 inconclusive (build failure, watchdog).
set -u
ID="$1"; TIER="${2:-quick}"
HERE="$(cd "$(dirname "$0")" && pwd)"
export VERIF_ROOT="$HERE"
export CARGO_NET_OFFLINE=true
cd "$HERE/engine" || exit 2
if ! cargo build --release --offline >"$HERE/engine/build.log" 2>&1; then
  echo "INCONCLUSIVE property=$ID engine build failed (see engine/build.log)"; tail -30 "$HERE/engine/build.log"; exit 2
fi
cd "$HERE" || exit 2
"$HERE/engine/target/release/mv" check "$ID" --tier "$TIER"
RC=$?
if [ $RC -ge 128 ]; then
  # The process was killed by a signal (e.g. SIGABRT from a panic inside a no-unwind section of the code under test,
  # a stack overflow, the OOM killer) or the harness itself panicked. An abort of the code under test is a crash of
  # validation, but it cannot be shrunk in-process: the replay file records the command that reproduces it.
  if [ $RC = 137 ]; then echo "INCONCLUSIVE property=$ID check process was killed (SIGKILL / out of memory)"; exit 2; fi
  mkdir -p "$HERE/replays/$ID"
  RP="$HERE/replays/$ID/process-abort-seed${VERIF_SEED:-1}-$TIER.json"
  printf '{"property":"%s","signature":"process-abort","detail":"the check process died with status %s; re-run: VERIF_SEED=%s ./run.sh %s %s","case":{"abort":true,"seed":%s,"tier":"%s"}}\n' "$ID" "$RC" "${VERIF_SEED:-1}" "$ID" "$TIER" "${VERIF_SEED:-1}" "$TIER" > "$RP"
  echo "VIOLATION property=$ID replay=$RP"
  echo "  signature: process-abort (exit status $RC)"
  exit 1
fi
exit $RC
