#!/bin/bash
# tools_seed_verify.sh <ID> [<tag>] : confirms a sub-agent's seeded change in its worktree /tmp/wt-<ID>[-tag]:
#  - the repository's own tests give the same per-test results with the change as without,
#  - the demonstration fails with the change and passes without it,
# then files it under /verif/seeded/<ID>[-tag]/ (patch.diff, demo, README.md, meta.json is written by hand afterwards).
set -u
ID="$1"; TAG="${2:-}"; WT="/tmp/wt-$ID${TAG:+-$TAG}"; NAME="$ID${TAG:+-$TAG}"
cd "$WT" || exit 2
digest() { cargo test --workspace --offline --no-fail-fast --lib 2>&1 | grep -E "^test .* (ok|FAILED)$" | sort | md5sum | cut -d' ' -f1; }
DEMOS=$(ls SEED/*.rs 2>/dev/null | xargs -n1 basename | sed 's/\.rs$//')
git checkout -q -- . 2>/dev/null
for d in $DEMOS; do mkdir -p tests; cp SEED/$d.rs tests/$d.rs; done
BASE=$(digest)
R_WITHOUT=""; for d in $DEMOS; do if cargo test --offline --test $d >/tmp/seed-$NAME-without.log 2>&1; then R_WITHOUT="$R_WITHOUT $d:pass"; else R_WITHOUT="$R_WITHOUT $d:FAIL"; fi; done
git apply SEED/patch.diff || { echo "patch does not apply"; exit 2; }
WITH=$(digest)
R_WITH=""; for d in $DEMOS; do if cargo test --offline --test $d >/tmp/seed-$NAME-with.log 2>&1; then R_WITH="$R_WITH $d:PASS"; else R_WITH="$R_WITH $d:fail"; fi; done
git apply -R SEED/patch.diff
echo "seed $NAME: suite digest without=$BASE with=$WITH ; demo without:[$R_WITHOUT ] with:[$R_WITH ]"
if [ "$BASE" = "$WITH" ] && ! echo "$R_WITHOUT" | grep -q FAIL && ! echo "$R_WITH" | grep -q PASS; then
  mkdir -p /verif/seeded/$NAME && cp SEED/patch.diff SEED/README.md SEED/*.rs /verif/seeded/$NAME/ && echo "CONFIRMED $NAME"
else
  echo "NOT CONFIRMED $NAME"
fi
