#![no_main]
//! C09 (+C01, C02) byte-level target: bytes are decoded by hand into a history plan (the same Plan type the
//! proptest generators produce) and run with the panic monitor, the conservation monitor and the UTXO monitor.
use arbitrary::Unstructured;
use libfuzzer_sys::fuzz_target;
use mv::evidence::Stats;
use mv::plan::{CfgPlan, OutPlan, Plan, StakeCfg, Step, TxPlan};

fn tx(u: &mut Unstructured) -> arbitrary::Result<TxPlan> {
    let n_in = 1 + u.int_in_range(0..=2)? as usize;
    let n_out = 1 + u.int_in_range(0..=3)? as usize;
    Ok(TxPlan {
        kind: u.arbitrary()?,
        ins: (0..n_in).map(|_| u.arbitrary()).collect::<arbitrary::Result<Vec<u16>>>()?,
        outs: (0..n_out)
            .map(|_| Ok(OutPlan { denom: u.arbitrary()?, weight: u.arbitrary()?, dest: u.arbitrary()?, adata: u.arbitrary()? }))
            .collect::<arbitrary::Result<Vec<_>>>()?,
        fee: u.arbitrary()?,
        data: u.arbitrary()?,
        pool: u.arbitrary()?,
        spell: u.arbitrary()?,
        amount: u.arbitrary()?,
        mutation: u.arbitrary()?,
        mparam: u.arbitrary()?,
    })
}

fn plan(u: &mut Unstructured) -> arbitrary::Result<Plan> {
    let n_st = u.int_in_range(0..=2)? as usize;
    let cfg = CfgPlan {
        net: u.arbitrary()?,
        denom: u.arbitrary()?,
        val: u.arbitrary()?,
        cov: u.arbitrary()?,
        fee_pool: u.arbitrary()?,
        fee_mult: u.arbitrary()?,
        stakes: (0..n_st)
            .map(|_| Ok(StakeCfg { key: u.arbitrary()?, start: u.arbitrary()?, len: u.arbitrary()?, syms: u.arbitrary()? }))
            .collect::<arbitrary::Result<Vec<_>>>()?,
    };
    let mut steps = vec![];
    while !u.is_empty() && steps.len() < 14 {
        let s = match u.int_in_range(0..=9)? {
            0..=5 => {
                let n = 1 + u.int_in_range(0..=4)? as usize;
                let txs = (0..n).map(|_| tx(u)).collect::<arbitrary::Result<Vec<_>>>()?;
                Step::Batch(txs, if u.arbitrary()? { u.arbitrary()? } else { 0 })
            }
            6..=7 => Step::Seal(if u.arbitrary()? { Some((u.arbitrary()?, u.arbitrary()?)) } else { None }),
            8 => Step::Restart,
            _ => Step::Empty(u.int_in_range(0..=2)?),
        };
        steps.push(s);
    }
    Ok(Plan { cfg, steps })
}

fuzz_target!(|data: &[u8]| {
    static HOOK: std::sync::Once = std::sync::Once::new();
    HOOK.call_once(mv::util::install_panic_hook);
    let mut u = Unstructured::new(data);
    let p = match plan(&mut u) {
        Ok(p) => p,
        Err(_) => return,
    };
    let mut st = Stats::default();
    let prof = mv::mon::c09::profile();
    let r = mv::plan::run_plan(&p, &prof, &mut mv::mon::c09::C09::default(), &mut st, 250)
        .and_then(|_| mv::plan::run_plan(&p, &prof, &mut mv::mon::c02::C02::default(), &mut st, 250))
        .and_then(|_| mv::plan::run_plan(&p, &prof, &mut mv::mon::c01::C01::default(), &mut st, 250));
    if let Err(v) = r {
        // known findings are tolerated in campaigns (strict mode is the replay)
        let known = mv::evidence::Known::load();
        if ["C09", "C02", "C01"].iter().any(|id| known.matches(id, &v.signature).is_some()) {
            return;
        }
        panic!("VIOLATION {} :: {} :: plan {}", v.signature, v.detail, serde_json::to_string(&p).unwrap_or_default());
    }
});
