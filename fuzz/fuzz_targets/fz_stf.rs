#![no_main]
//! C09 (+C01, C02) byte-level target: bytes are decoded by hand into a history plan (the same Plan type the
//! proptest generators produce) and run with the panic monitor, the UTXO monitor and the conservation monitor.
use libfuzzer_sys::fuzz_target;

fuzz_target!(|data: &[u8]| {
    static HOOK: std::sync::Once = std::sync::Once::new();
    HOOK.call_once(mv::util::install_panic_hook);
    if let Err(v) = mv::fuzzing::target_stf(data, false) {
        panic!("VIOLATION C09/C02/C01 {} :: {}", v.signature, v.detail);
    }
});
