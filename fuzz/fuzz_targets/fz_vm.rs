#![no_main]
//! C10 + C11 byte-level target: bytes that decode are executed differentially against RefVM (C10) and
//! stepped against their weight with the weigh-work counter (C11). First byte selects the initial heap shape.
use libfuzzer_sys::fuzz_target;
use mv::evidence::Stats;
use mv::refvm::{self, RVal};

fuzz_target!(|data: &[u8]| {
    if data.is_empty() {
        return;
    }
    let (sel, code) = (data[0], &data[1..]);
    let ops = match refvm::decode(code) {
        Ok(o) => o,
        Err(_) => return,
    };
    let heap: Vec<RVal> = match sel % 4 {
        0 => vec![],
        1 => vec![refvm::int_u128(sel as u128), RVal::Bytes(vec![sel; 32])],
        2 => vec![RVal::Vec(vec![refvm::int_u128(1), RVal::Bytes(vec![2, 3]), RVal::Vec(vec![])]), refvm::int_u128(65535)],
        _ => vec![RVal::Bytes(vec![]), RVal::Vec(vec![RVal::Vec(vec![refvm::int_u128(7)])]), refvm::int_u128(0), refvm::int_u128(1)],
    };
    let mut st = Stats::default();
    if let Err(v) = mv::mon::c10::check_program(&ops, &heap, &mut st) {
        panic!("VIOLATION C10 {} :: {}", v.signature, v.detail);
    }
    if let Err(v) = mv::mon::c11::check_cost(&ops, &mut st) {
        panic!("VIOLATION C11 {} :: {}", v.signature, v.detail);
    }
});
