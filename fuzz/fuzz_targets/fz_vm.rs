#![no_main]
//! C10 + C11 byte-level target: bytes that decode are executed differentially against RefVM (C10) and
//! stepped against their weight with the weigh-work counter (C11). First byte selects the initial heap shape.
use libfuzzer_sys::fuzz_target;

fuzz_target!(|data: &[u8]| {
    if let Err(v) = mv::fuzzing::target_vm(data) {
        panic!("VIOLATION C10/C11 {} :: {}", v.signature, v.detail);
    }
});
