#![no_main]
//! C12 byte-level target: the whole codec oracle (round trips, RefVM decoder agreement, view equality) runs inside.
use libfuzzer_sys::fuzz_target;
use mv::evidence::Stats;

fuzz_target!(|data: &[u8]| {
    let mut st = Stats::default();
    if let Err(v) = mv::mon::c12::check_bytes(data, &mut st, true) {
        panic!("VIOLATION C12 {} :: {}", v.signature, v.detail);
    }
});
