#![no_main]
//! C12 byte-level target: the whole codec oracle (round trips, RefVM decoder agreement, view equality) runs inside.
use libfuzzer_sys::fuzz_target;

fuzz_target!(|data: &[u8]| {
    if let Err(v) = mv::fuzzing::target_decode(data) {
        panic!("VIOLATION C12 {} :: {}", v.signature, v.detail);
    }
});
