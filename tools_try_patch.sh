#!/bin/bash
# tools_try_patch.sh <patch-file> <ID> [<ID> ...] : runs the quick checks of the given properties against a scratch
# clone of /repo with the patch applied (never touches /repo). Prints one line per check.
set -u
PATCH="$(readlink -f "$1")"; shift
SCR="${TRY_SCRATCH:-/tmp/tryrun}"
mkdir -p "$SCR"
if [ ! -d "$SCR/repo" ]; then git clone -q /repo "$SCR/repo"; fi
git -C "$SCR/repo" fetch -q origin; git -C "$SCR/repo" checkout -q -- . ; git -C "$SCR/repo" reset -q --hard "$(git -C /repo rev-parse HEAD)"
cp /repo/Cargo.lock "$SCR/repo/"
git -C "$SCR/repo" apply "$PATCH" || { echo "patch does not apply"; exit 2; }
mkdir -p "$SCR/engine" "$SCR/out"
rsync -a --delete --exclude target --exclude build.log "${ENGINE_SRC:-/verif/engine}/" "$SCR/engine/"
sed -i "s|path = \"/repo|path = \"$SCR/repo|g" "$SCR/engine/Cargo.toml"
cp /verif/known_findings.json "$SCR/out/"; rm -rf "$SCR/out/pinned" "$SCR/out/regress"; cp -r /verif/pinned "$SCR/out/pinned"; cp -r /verif/regress "$SCR/out/regress" 2>/dev/null
export CARGO_NET_OFFLINE=true VERIF_ROOT="$SCR/out"
(cd "$SCR/engine" && cargo build --release --offline >"$SCR/build.log" 2>&1) || { echo "engine does not build against the patched tree"; tail -20 "$SCR/build.log"; exit 2; }
for ID in "$@"; do
  rm -rf "$SCR/out/replays" "$SCR/out/evidence"
  OUT=$(cd "$SCR/out" && timeout 1200 "$SCR/engine/target/release/mv" check "$ID" --tier "${TIER:-quick}" 2>&1); RC=$?
  SIG=$(echo "$OUT" | grep -m1 "signature:" | sed 's/.*signature: //' | cut -c1-100)
  DET=$(echo "$OUT" | grep -m1 "detail:" | cut -c1-300)
  echo "$ID rc=$RC sig=[$SIG] $DET"
done
git -C "$SCR/repo" checkout -q -- .
